SPEC = dict(
    id="C23",
    title="Cryptographic building blocks match their reference definitions",
    deps=['zeroize = { version = "1.8", features = ["derive"] }'],
    shims=["md5_record"],
    modules=[
        dict(src="encryption/permissions.rs", mode="whole", harness="C23_permissions.rs"),
        dict(src="encryption/standard_security.rs", mode="items",
             items=["const PADDING", "struct UserPassword", "struct OwnerPassword", "struct EncryptionKey", "impl EncryptionKey",
                    "enum SecurityHandlerRevision", "struct StandardSecurityHandler",
                    "impl StandardSecurityHandler::rc4_40bit", "impl StandardSecurityHandler::rc4_128bit",
                    "impl StandardSecurityHandler::pad_password", "impl StandardSecurityHandler::compute_object_key",
                    "impl StandardSecurityHandler::compute_r4_aes_object_key"],
             no_uses=True,
             prelude="use crate::objects::ObjectId;\nuse crate::verif_shims::md5;\nuse zeroize::{Zeroize, ZeroizeOnDrop};\n",
             harness="C23_security.rs"),
        dict(src="objects/primitive.rs", mode="items", items=["struct ObjectId", "impl ObjectId"], no_uses=True),
    ],
    extra_modules={"objects/mod.rs": "pub use primitive::ObjectId;\n", "encryption/mod.rs": "pub use permissions::{PermissionFlags, Permissions};\n"},
    stubs_doc=["md5::compute -> verif_shims::md5 (records its input, returns the first 16 input bytes): MD5 itself is trusted, the hash-input assembly is what is checked"],
    outside_claim=[
        "RC4, AES-CBC, MD5, SHA-2 and the iterated hashes of Algorithms 2/2.B/3-10 (key schedules and hashing loops: RC4 alone is 34.7 M clauses for two data bytes; block ciphers are out of reach of bit-blasting here)",
        "non-ASCII passwords; passwords of lengths other than 0, 5, 31, 32, 34",
        "the Perms entry plaintext layout and owner/user verifier computations (need AES/MD5 around them)",
    ],
    trusted=["ISO 32000-1 Table 22 and Algorithm 1 / Algorithm 2 step (a) as transcribed in the harnesses"],
)

MANIFEST = dict(
    text="Bounded model checking of the solver-sized parts of the security handler: Permissions (whole file) against Table 22 for all 256 flag sets and every u32 bit pattern (each getter reads, each setter changes exactly its Table 22 bit, reserved bits preserved); pad_password (Algorithm 2 step a) for every ASCII password of length 0, 5, 31, 32 and 34; the per-object key hash INPUT of Algorithm 1 (key || object number low 3 bytes LE || generation low 2 bytes LE [|| 'sAlT']) for every key, object number and generation, with MD5 replaced by an input recorder.",
    note="Only the building blocks that are integer/byte layout are claimed. RC4, AES-CBC, MD5/SHA-2 and every computation that needs them (verifiers, R6 iterated hash, Perms) are outside: they are hashing/cipher loops beyond SAT reach on this machine (measured: RC4 with a 5-byte key and 2 data bytes = 34.7 M clauses, no verdict in 11 min).",
)
