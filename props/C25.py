SPEC = dict(
    id="C25",
    title="Single-byte text encodings match the normative tables",
    modules=[
        dict(src="text/encoding.rs", mode="whole", harness="C25_encoding.rs"),
    ],
    spec_files=["annex_d.rs"],
    shims=[],
    outside_claim=[
        "parser/encoding.rs CharacterEncodingProcessor (font-level /Encoding + /Differences handling; HashMap-backed)",
        "multi-character strings (each character is encoded/decoded independently by a loop whose body is what is checked)",
    ],
    trusted=["engine/spec/gen_annex_d.py transcription of Annex D.2 (cross-checked against Python cp1252/mac_roman)"],
)

MANIFEST = dict(
    text="Bounded model checking (Kani/CBMC, SAT) of the library's own text/encoding.rs: winansi_encode_char / winansi_decode_char / macroman_encode_char and TextEncoding::{encode_strict,encode,decode} on one-character inputs against the Annex D tables, with the quantifier complete -- every u8 and every Unicode scalar value is a symbolic input. Standard/PDFDoc (UTF-8 pass-through in the library) are listed known findings; every input outside the listed predicates is still decided.",
    note="Trusted: Kani's MIR->GOTO translation, CBMC+CaDiCaL, the Annex D transcription (engine/spec/gen_annex_d.py, cross-checked against Python cp1252/mac_roman; contested codes 0xA0/0xAD WinAnsi, 0xCA/0xDB and the 15 symbol codes of MacRoman accept either reading). Outside: multi-character strings, parser/encoding.rs. Quick tier: table functions over the full domain + string wrappers for UTF-8 width 1 (1-2 for WinAnsi); thorough adds WinAnsi widths 3-4 (MacRoman / Standard / PDFDoc wrappers beyond width 1 ran out of memory and are not claimed; their table functions are decided over all characters).",
)
