from props import _common as c

SPEC = dict(
    id="C01",
    title="Reading any byte sequence never crashes, hangs or exhausts memory",
    deps=['thiserror = "2.0.12"'],
    stubbing=True,
    shims=["arraymap", "fmt", "tracing", "string_ascii", "pdfdict_model"],
    modules=[
        c.parser_mod(reexports="pub use objects::{PdfArray, PdfDictionary, PdfName, PdfObject, PdfStream, PdfString};\n"),
        c.parser_encoding(),
        c.parser_objects(dict_model=True),
        c.parser_filters("C01_filters.rs"),
        dict(src="parser/xref_stream.rs", mode="items",
             items=["enum XRefEntry", "struct XRefStream", "impl XRefStream::to_xref_entries", "fn read_field"],
             drop_uses=["std::io"], harness="C01_xref_stream.rs"),
        dict(src="parser/stack_safe.rs", mode="whole", harness="C01_stack_safe.rs",
             rebind=[("use std::collections::HashSet;", "use crate::verif_shims::arraymap::HashSet;")]),
        dict(src="parser/content.rs", mode="items",
             items=["enum Token", "struct ContentTokenizer", "impl ContentTokenizer"], drop_uses=["crate::objects", "std::collections"],
             harness="C01_content.rs"),
    ],
    stubs_doc=c.FILTER_STUBS_DOC + [
        "std::time::Instant::now / elapsed -> arbitrary instant / arbitrary elapsed time (clock is environment); HashSet in StackSafeContext -> array model",
        "PdfDictionary::get / PdfObject::as_integer -> per-obligation parameter source `p_sym` (every integer parameter an arbitrary i64, present or absent)",
    ],
    outside_claim=[
        "whole-file parsing: PdfReader, xref table text parsing, recovery scans, object streams, page tree, text extraction (I/O, HashMap dictionaries, recursion over documents)",
        "Flate / DCT / JBIG2 / CCITT decoders; LZW beyond two codes",
        "wall-clock and RSS of full parses; the five strictness presets as whole-program configurations",
        "buffers longer than the per-obligation bound; content-stream tokens other than names (numeric tokens reach std float parsing)",
    ],
    trusted=["Kani's default checks as the definition of 'panic' (overflow-checks on, as in debug builds)"],
)

MANIFEST = dict(
    text="Bounded model checking of the parsing kernels where attacker-controlled integers and bytes meet arithmetic: apply_predictor / apply_png_predictor_advanced with EVERY u32 predictor and /Columns,/Colors,/BitsPerComponent each any i64 or absent; ASCII85 on every five-digit group (incl. > 2^32-1); ASCIIHex / RunLength on every 3-byte input with any limit; LzwBitReader::read_bits for every n and reader state; xref-stream read_field on fields of 0..=12 bytes and XRefStream::to_xref_entries with arbitrary /W, /Index and data; the content tokenizer's name scanner on '/' + up to 3 arbitrary bytes; the recursion-depth guard and circular-reference stack of parser/stack_safe.rs by one step from every valid state (depth never exceeds max_depth under any clock reading, cycles refused). The assertion is absence of every panic class Kani checks (arithmetic overflow as in debug builds, out-of-bounds, unwrap, unreachable) plus loop termination within the stated unwinding bound.",
    note="Kernel-level claim only: whole-file opening/navigation (PdfReader, recovery, page tree, extraction) is outside. Trusted: Kani/CBMC, dictionary model + symbolic parameter source, head-room Vec models, fmt stub.",
)
