from props import _writer
SPEC = _writer.spec("C09", "Serialized objects parse back to the same value", "W_serializer.rs")
SPEC["only_obligations"] = ["string_token_1", "string_token_2", "name_token_1", "name_token"]
SPEC["outside_claim"] = [
    "the library's own lexer as the reader (Lexer over std::io::Read: not assembled; the reader here is the in-harness ISO 32000-1 7.3.4.2 / 7.3.5 transcription, i.e. the 'independent reader' half of the property)",
    "integers, reals (float formatting), arrays, dictionaries, streams, references, nesting (the recursive serializer explodes under recursion unwinding, measured), object streams",
    "strings longer than 2 bytes or with non-ASCII characters; names longer than 2 characters or with non-ASCII characters",
]
MANIFEST = dict(
    text="Bounded model checking of the String and Name arms of PdfWriter::write_object_value_to_buffer + escape_pdf_string_bytes (sliced): for every 1- and 2-byte ASCII string and every 2-character ASCII name, the emitted bytes are exactly one token that an in-harness ISO 32000-1 reader (7.3.4.2 incl. escapes, balanced parentheses and CR/CRLF->LF normalisation; 7.3.5 incl. #xx) reads back as the same value. Names containing white-space, delimiters, '#' or control characters are written raw: listed known finding (C09-K1); everything else is decided.",
    note="Trusted: the in-harness token readers; PdfWriter model struct; head-room Vec models. Outside: every other object kind and nesting, the library's own lexer, longer values.",
)
