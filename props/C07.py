from props import _common as c

SPEC = dict(
    id="C07",
    title="Every supported stream filter decodes exactly what a reference encoder encoded",
    deps=['thiserror = "2.0.12"'],
    stubbing=True,
    shims=["arraymap", "fmt", "tracing", "string_ascii", "pdfdict_model"],
    modules=[
        c.parser_mod(reexports="pub use objects::{PdfArray, PdfDictionary, PdfName, PdfObject, PdfStream, PdfString};\n"),
        c.parser_encoding(),
        c.parser_objects(dict_model=True),
        c.parser_filters("C07_filters.rs"),
    ],
    stubs_doc=c.FILTER_STUBS_DOC,
    outside_claim=[
        "FlateDecode, CCITTFaxDecode, DCT, JBIG2 (zlib / table-driven decoders: hashing-style loops, not encodable)",
        "LZWDecode (258-entry Vec<Vec<u8>> dictionary with symbolic-index clones; attempted, does not fit the caps)",
        "filter chains (decode_stream's chain loop reaches a Kani ICE); a chain is the sequential composition of per-filter results decided here",
        "payloads longer than the per-obligation bound; PNG rows beyond 2 rows x 6 bytes; TIFF predictor beyond one 8-bit row",
    ],
    trusted=["in-harness reference encoders transcribed from ISO 32000-1 7.4.2/7.4.3/7.4.5, PNG 1.2 section 6 and TIFF 6.0 section 14"],
)

MANIFEST = dict(
    text="Bounded model checking of the sliced parser/filters.rs decoders against in-harness reference ENCODERS: decode(encode(x)) == x for ASCIIHex (payload <= 3 bytes, both digit cases, inserted white-space, end marker followed by an arbitrary byte, odd final digit), ASCII85 (every non-zero 32-bit full group, 'z', partial groups of 1-3 bytes, '<~' prefix, white-space), RunLength (literal + repeat run + EOD + trailing byte), PNG predictors 10-15 with every row-filter type on 2 rows for (Columns,Colors,BPC) = (2,1,8), (2,2,8), (3,4,4) (thorough adds (1,3,8), (2,1,16), (8,1,1)), and TIFF predictor 2 (8-bit).",
    note="Trusted: Kani/CBMC, the reference encoders in harness/C07_filters.rs, array model of the HashMap inside PdfDictionary, alloc::fmt::format stubbed (messages never inspected). Outside: Flate/CCITT/DCT/JBIG2/LZW, filter chains, longer payloads.",
)
