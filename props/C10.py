SPEC = dict(
    id="C10",
    title="Text given through the API reads back unchanged",
    modules=[
        dict(src="parser/objects.rs", mode="items", items=["fn decode_text_string"], no_uses=True, harness="C10_text.rs"),
        dict(src="text/encoding.rs", mode="items", items=["fn winansi_decode_char"], no_uses=True),
    ],
    spec_files=["annex_d.rs"],
    shims=[],
    outside_claim=[
        "the API plumbing that carries text to Object::String (document info, form fields, annotations, outlines, incremental form fill) and whole files",
        "the emission side beyond 'UTF-8 bytes of the text, escaped' (decided under C09 for the escaping)",
        "surrogate pairs (std String::from_utf16_lossy on two symbolic code units: out of memory at 24 GB); strings of more than one character; third-party readers other than the PDFDocEncoding / UTF-16BE rules of 7.9.2.2",
    ],
    trusted=["Annex D.2 PDFDocEncoding transcription (engine/spec/gen_annex_d.py)", "the statement that the writer emits text as its UTF-8 bytes (pdf_writer Object::String arm: s.as_bytes())"],
)

MANIFEST = dict(
    text="Bounded model checking of decode_text_string (sliced from parser/objects.rs with text::encoding::winansi_decode_char): every 1-byte text string vs the PDFDocEncoding table; every UTF-16BE BOM string of one code unit (all non-surrogate values); and the library's own write->read composition for one character: UTF-8 bytes of c (what the writer emits for Object::String) decoded by decode_text_string must give c back -- for every ASCII c it does, for every non-ASCII c it does not ('Año' -> 'AÃ±o'): listed known finding C10-K2; PDFDocEncoding deviations: C10-K1.",
    note="Kernel-level: single characters through the decode function and the emit-as-UTF-8 composition. Outside: API plumbing, whole documents, incremental form fill, multi-character strings.",
)
