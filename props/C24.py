SPEC = dict(
    id="C24",
    title="Embedded raster images decode to the pixels that were supplied",
    deps=['thiserror = "2.0.12"'],
    stubbing=True,
    shims=["fmt"],
    modules=[
        dict(src="graphics/png_decoder.rs", mode="items",
             items=["enum PngColorType", "impl PngColorType", "enum InterlaceMethod", "enum TransparencyData", "struct PngDecoder",
                    "impl PngDecoder::new", "impl PngDecoder::read_chunk", "impl PngDecoder::process_ihdr",
                    "impl PngDecoder::unfilter_row", "impl PngDecoder::separate_alpha", "fn paeth_predictor"],
             drop_uses=["flate2", "std::io::Read"], harness="C24_png.rs"),
    ],
    lib_extra=("pub mod error {\n    #[derive(Debug, thiserror::Error)]\n    pub enum PdfError {\n"
               "        #[error(\"invalid image: {0}\")] InvalidImage(String),\n        #[error(\"invalid structure: {0}\")] InvalidStructure(String),\n"
               "        #[error(\"invalid format: {0}\")] InvalidFormat(String),\n        #[error(\"parse error: {0}\")] ParseError(String),\n"
               "        #[error(\"encoding error: {0}\")] EncodingError(String),\n    }\n    pub type Result<T> = std::result::Result<T, PdfError>;\n}\n"),
    stubs_doc=["crate::error::PdfError -> model enum with the message-carrying variants the decoder uses", "alloc::fmt::format -> empty String in chunk_reader"],
    outside_claim=[
        "inflate (zlib), Adam7 interlace, palette / tRNS expansion and bit-depth expansion over whole images (decode_image_data)",
        "the PDF-side image XObject / SMask construction (graphics/pdf_image.rs) and comparison with an independent decoder on whole files",
        "rows longer than 8 bytes; more than 3 pixels in separate_alpha",
    ],
    trusted=["in-harness PNG filter (encoder) transcribed from PNG 1.2 section 6"],
)

MANIFEST = dict(
    text="Bounded model checking of the PNG decoder's kernels sliced from graphics/png_decoder.rs: unfilter_row inverts the five PNG filter types for every row / previous row of 3-8 bytes at 1-4 bytes per pixel (reference = the PNG filtering equations); undefined filter types are rejected; paeth_predictor equals the specification on all 2^24 inputs; separate_alpha puts every grey/RGB/alpha sample in the right plane and pixel; read_chunk/process_ihdr stay in bounds for every 20-byte buffer, position and declared length.",
    note="Kernel-level only: inflate, interlace, palette/tRNS expansion, the PDF image/SMask construction and whole-file comparison with an independent decoder are outside.",
)
