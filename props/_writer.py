"""Slice of the writer's object serializer shared by C20, C09, C03, C30."""
def spec(pid, title, harness_file):
    return dict(
        id=pid, title=title,
        deps=['thiserror = "2.0.12"'],
        stubbing=True,
        shims=["arraymap", "fmt", "string_ascii"],
        shim_subst={"arraymap": [("pub const CAP: usize = 8;", "pub const CAP: usize = 3;")]},
        modules=[
            dict(src="objects/primitive.rs", mode="items", items=["struct ObjectId", "impl ObjectId", "enum Object", "impl From for Object"],
                 no_uses=True, prelude="use crate::objects::Dictionary;\n"),
            dict(src="objects/dictionary.rs", mode="items",
                 items=["struct Dictionary", "impl Default for Dictionary", "impl Dictionary::new", "impl Dictionary::set", "impl Dictionary::get",
                        "impl Dictionary::entries", "impl Dictionary::len", "impl Dictionary::is_empty", "impl Dictionary::contains_key"],
                 rebind=[("use std::collections::HashMap;", "use crate::verif_shims::arraymap::HashMap;")]),
            dict(src="writer/pdf_writer/mod.rs", mode="items",
                 items=["fn escape_pdf_string_bytes", "impl PdfWriter::write_object_value_to_buffer"],
                 no_uses=True,
                 prelude=("use crate::error::Result;\nuse crate::objects::{Dictionary, Object, ObjectId};\nuse std::io::Write;\n"
                          "// model of PdfWriter: the serializer method only uses `self` to recurse\n"
                          "pub struct PdfWriter<W: Write> { pub _w: core::marker::PhantomData<W> }\n"),
                 harness=harness_file),
        ],
        extra_modules={"objects/mod.rs": "pub use dictionary::Dictionary;\npub use primitive::{Object, ObjectId};\n"},
        lib_extra=("pub mod error {\n    #[derive(Debug, thiserror::Error)]\n    pub enum PdfError {\n"
                   "        #[error(\"object stream error: {0}\")] ObjectStreamError(String),\n        #[error(\"invalid structure: {0}\")] InvalidStructure(String),\n"
                   "        #[error(\"encoding error: {0}\")] EncodingError(String),\n    }\n    pub type Result<T> = std::result::Result<T, PdfError>;\n}\n"),
        stubs_doc=[
            "std HashMap inside objects::Dictionary -> array model whose iteration order is insertion/slot order (so map order is an input)",
            "PdfWriter<W> -> empty model struct (write_object_value_to_buffer uses self only to recurse)",
            "alloc::fmt::format -> empty String (only reached by arms no obligation exercises: Real, ByteString, Reference)",
        ],
        trusted=["in-harness ISO 32000-1 7.3.4.2 / 7.3.5 token readers"],
    )
