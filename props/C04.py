from props import _common as c
import os
_model = open(os.path.join(os.path.dirname(os.path.dirname(os.path.abspath(__file__))), "harness", "C04_model.rs")).read()

SPEC = dict(
    id="C04",
    title="The newest revision of an object always wins",
    deps=['thiserror = "2.0.12"'],
    stubbing=True,
    shims=["arraymap", "fmt", "tracing", "string_ascii", "pdfdict_model"],
    # inline (un-boxed) slots and capacity 4: the xref maps hold no recursive values, and heap-boxed
    # slot arrays cost the solver a pointer-validity formula per access
    shim_subst={"arraymap": [("pub const CAP: usize = 8;", "pub const CAP: usize = 4;"),
                             ("pub slots: Box<[Option<(K, V)>; CAP]>,", "pub slots: [Option<(K, V)>; CAP],"),
                             ("Self { slots: Box::new([const { None }; CAP]) }", "Self { slots: [const { None }; CAP] }"),
                             ("pub struct MapIntoIter<K, V> { slots: Box<[Option<(K, V)>; CAP]>, i: usize }", "pub struct MapIntoIter<K, V> { slots: [Option<(K, V)>; CAP], i: usize }")]},
    modules=[
        c.parser_mod(reexports="pub use objects::{PdfArray, PdfDictionary, PdfName, PdfObject, PdfStream, PdfString};\n"),
        c.parser_encoding(),
        c.parser_objects(dict_model=True),
        dict(src="parser/xref.rs", mode="items",
             items=["struct XRefEntry", "struct XRefEntryExt", "struct XRefTable", "impl Default for XRefTable", "struct ObjHeader",
                    "impl XRefTable::new", "impl XRefTable::get_entry", "impl XRefTable::get_extended_entry", "impl XRefTable::is_compressed",
                    "impl XRefTable::add_entry", "impl XRefTable::add_extended_entry", "impl XRefTable::add_headers_latest_wins",
                    "impl XRefTable::parse_with_incremental_updates_options", "impl XRefTable::trailer"],
             drop_uses=["super::xref_stream", "super::xref_types", "crate::parser::reader"],
             rebind=[("use std::collections::HashMap;", "use crate::verif_shims::arraymap::HashMap;"),
                     ("std::collections::HashSet::new()", "crate::verif_shims::arraymap::HashSet::new()")],
             epilogue=_model, harness="C04_xref.rs"),
    ],
    stubs_doc=c.FILTER_STUBS_DOC + [
        "XRefTable::find_xref_offset / parse_primary_with_options / scan_and_fill_missing_objects -> models in harness/C04_model.rs: the file is a /Prev chain of <= 3 revisions, each a symbolic statement about objects 1 and 2, materialised with the same representation the real section parser produces",
        "std HashMap / HashSet -> array models (incl. the `std::collections::HashSet::new()` path inside the merge loop, rebound textually)",
        "BufReader over an empty in-memory file (only seek / stream_position are used by the merge loop)",
    ],
    outside_claim=[
        "reading real bytes: xref text/stream parsing, find_xref_offset, the hybrid-file scan, object-stream contents",
        "more than 3 revisions or more than 2 object numbers; comparison with an independent reader",
        "PdfReader::load_object_from_disk itself (its 12-line dispatch order is transcribed in the harness and is part of the trusted base)",
    ],
    trusted=["harness/C04_model.rs (representation invariant of parsed sections, transcribed from xref.rs)", "the dispatch order transcribed from reader.rs load_object_from_disk"],
)

MANIFEST = dict(
    text="Bounded model checking of the real newest-first merge loop (XRefTable::parse_with_incremental_updates_options, sliced) over a symbolic history: every /Prev chain of up to 3 revisions (cycles included), each revision independently declaring objects 1 and 2 absent / in use / free / compressed with arbitrary offsets, generations and (stream, index); the merged table, read with the reader's dispatch order, must resolve each object to its most recent statement. Second obligation: add_headers_latest_wins on 3 arbitrary scanned headers over an arbitrary pre-populated table.",
    note="Trusted: Kani/CBMC; models of the I/O and section parsing around the merge loop (harness/C04_model.rs); array models of HashMap/HashSet; the transcribed dispatch order. Outside: real file bytes, object streams' content, > 3 revisions.",
)
