from props import _common as c

SPEC = dict(
    id="C04",
    title="The newest revision of an object always wins",
    deps=['thiserror = "2.0.12"'],
    stubbing=True,
    shims=["arraymap", "fmt", "tracing", "string_ascii", "pdfdict_model"],
    # inline (un-boxed) slots and capacity 4: the xref maps hold no recursive values, and heap-boxed
    # slot arrays cost the solver a pointer-validity formula per access
    shim_subst={"arraymap": [("pub const CAP: usize = 8;", "pub const CAP: usize = 4;"),
                             ("pub slots: Box<[Option<(K, V)>; CAP]>,", "pub slots: [Option<(K, V)>; CAP],"),
                             ("Self { slots: Box::new([const { None }; CAP]) }", "Self { slots: [const { None }; CAP] }"),
                             ("pub struct MapIntoIter<K, V> { slots: Box<[Option<(K, V)>; CAP]>, i: usize }", "pub struct MapIntoIter<K, V> { slots: [Option<(K, V)>; CAP], i: usize }")]},
    modules=[
        c.parser_mod(reexports="pub use objects::{PdfArray, PdfDictionary, PdfName, PdfObject, PdfStream, PdfString};\n"),
        c.parser_encoding(),
        c.parser_objects(dict_model=True),
        dict(src="parser/xref.rs", mode="items",
             items=["struct XRefEntry", "struct XRefEntryExt", "struct XRefTable", "impl Default for XRefTable", "struct ObjHeader",
                    "impl XRefTable::new", "impl XRefTable::get_entry", "impl XRefTable::get_extended_entry", "impl XRefTable::is_compressed",
                    "impl XRefTable::add_entry", "impl XRefTable::add_extended_entry", "impl XRefTable::add_headers_latest_wins",
                    "impl XRefTable::trailer"],
             drop_uses=["super::xref_stream", "super::xref_types", "crate::parser::reader"],
             rebind=[("use std::collections::HashMap;", "use crate::verif_shims::arraymap::HashMap;"),
                     ("std::collections::HashSet::new()", "crate::verif_shims::arraymap::HashSet::new()")],
             harness="C04_xref.rs"),
    ],
    stubs_doc=["std HashMap -> inline array model (capacity 4)"],
    outside_claim=[
        "THE NEWEST-FIRST MERGE OF THE /Prev CHAIN (parse_with_incremental_updates_options) AND THE READER'S DISPATCH: attempted with a symbolic 3-revision history and an I/O model (harness/C04_merge_attempt.rs.txt, harness/C04_model.rs) -- 27.5 M variables / 128 M clauses, out of memory at 24 GB, no verdict in 1800 s after shrinking; so the stale-compressed-definition defect the property names is NOT decided by this check",
        "reading real bytes, object streams, more than 3 scanned headers, comparison with an independent reader",
    ],
    trusted=["array model of HashMap"],
)

MANIFEST = dict(
    text="Bounded model checking of the recovery-path latest-wins rule only: XRefTable::add_headers_latest_wins (sliced from parser/xref.rs) on 3 scanned headers with arbitrary object numbers, generations and ascending offsets over a table already holding one arbitrary regular and one arbitrary compressed entry, check_extended arbitrary: every unprotected object resolves to its LAST (highest-offset) header with that header's generation, protected entries are untouched. The /Prev-chain merge itself did not fit the solver (see level_note) and is outside this claim.",
    note="PARTIAL: decides one of the three mechanisms of C04. The newest-first merge of the /Prev chain was encoded (symbolic 3-revision history over the real loop with an I/O model) but the query (27.5 M variables, 128 M clauses) ran out of memory at 24 GB and did not finish in 1800 s after shrinking; it is recorded under outside_claim, not claimed.",
)
