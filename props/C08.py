from props import _common as c

SPEC = dict(
    id="C08",
    title="Bounded decoding respects its limit and agrees with full decoding",
    deps=['thiserror = "2.0.12"'],
    stubbing=True,
    shims=["arraymap", "fmt", "tracing", "string_ascii", "pdfdict_model"],
    modules=[
        c.parser_mod(reexports="pub use objects::{PdfArray, PdfDictionary, PdfName, PdfObject, PdfStream, PdfString};\n"),
        c.parser_encoding(),
        c.parser_objects(dict_model=True),
        c.parser_filters("C08_filters.rs"),
    ],
    stubs_doc=c.FILTER_STUBS_DOC,
    outside_claim=[
        "FlateDecode's bounded path (read_to_end_limited wraps zlib) and the compression-ratio guard",
        "LZWDecode with a limit (dictionary of Vec<Vec<u8>>, see C07)",
        "decode_stream_with_limit's filter dispatch and post-filter length check (needs the filter-name/DecodeParms plumbing over the real dictionary)",
        "inputs longer than 4-7 bytes; RunLength runs longer than 4 bytes",
        "reaching the 256 MiB ceiling itself (argued by the one-step obligations: the ceiling is passed as the limit)",
    ],
    trusted=["the contract transcription in harness/C08_filters.rs"],
)

MANIFEST = dict(
    text="Bounded model checking of the bounded decoders in the sliced parser/filters.rs with the limit a fully symbolic usize: for every 4-byte ASCIIHex input, every 5-byte ASCII85 group body + '~>', every 5-byte RunLength input with runs <= 4, the bounded result never exceeds the limit, equals the unbounded result whenever that fits, and is an error exactly when it does not (so limit = decoded length - 1 / exactly / + 1 are all decided); push_bounded / extend_bounded are decided directly (never exceed, never refuse what fits); unbounded decoding is the bounded decoder called with the 256 MiB ceiling.",
    note="Trusted: Kani/CBMC, head-room Vec models, fmt stub. Outside: Flate (zlib), LZW, decode_stream_with_limit's dispatch, longer inputs.",
)
