from props import _common as c

SPEC = dict(
    id="C26",
    title="CMaps map every code to the Unicode they define",
    deps=['thiserror = "2.0.12"'],
    shims=["arraymap", "fmt", "tracing", "pdfdict_model"],
    shim_subst={"arraymap": [("pub const CAP: usize = 8;", "pub const CAP: usize = 2;")]},
    modules=[
        c.parser_mod(reexports="pub use objects::{PdfArray, PdfDictionary, PdfName, PdfObject, PdfStream, PdfString};\n"),
        c.parser_encoding(),
        c.parser_objects(dict_model=True),
        dict(src="text/cmap.rs", mode="items",
             items=["enum CMapType", "struct CodeRange", "impl CodeRange", "enum CMapEntry", "struct CMap", "impl Default for CMap",
                    "impl CMap::new", "impl CMap::map", "impl CMap::is_valid_code", "impl CMap::identity_inherited",
                    "impl CMap::inherited_predefined_is", "fn increment_be", "fn calculate_offset"],
             rebind=[("use std::collections::HashMap;", "use crate::verif_shims::arraymap::HashMap;")],
             harness="C26_cmap.rs"),
    ],
    stubs_doc=["std HashMap (single_mappings cache) -> array model (empty in these obligations)"],
    outside_claim=[
        "the PostScript tokenizer/parser (tokenize_cmap, CMap::parse) and ToUnicodeCMapBuilder::build -> parse round trip (string formatting and parsing both ways)",
        "bfchar entries and the array form of bfrange (stored in the HashMap cache by the parser)",
        "codes of 4 bytes; more than one range; to_unicode's UTF-16 decoding",
    ],
    trusted=["big-endian arithmetic reference in harness/C26_cmap.rs"],
)

MANIFEST = dict(
    text="Bounded model checking of CMap::map / is_valid_code / CodeRange::contains / calculate_offset / increment_be (sliced from text/cmap.rs) on a CMap value built directly: for one offset-form bfrange with 1-, 2- (quick) and 3-byte (thorough) codes, EVERY start <= end, destination and looked-up code, the result is dst + (code - start) as big-endian integers with carry across bytes, codes outside the range are unmapped and codes of another length are outside the code space; calculate_offset on codes up to 9 bytes never panics and is the saturating difference; increment_be is +1 with carry and reports overflow.",
    note="Outside: the CMap text parser and the ToUnicode builder round trip (string formatting/parsing), bfchar/array-form entries, 4-byte codes.",
)
