from props import _common as c

SPEC = dict(
    id="C26",
    title="CMaps map every code to the Unicode they define",
    deps=['thiserror = "2.0.12"'],
    shims=["arraymap", "fmt", "tracing", "pdfdict_model"],
    shim_subst={"arraymap": [("pub const CAP: usize = 8;", "pub const CAP: usize = 2;")]},
    modules=[
        c.parser_mod(reexports="pub use objects::{PdfArray, PdfDictionary, PdfName, PdfObject, PdfStream, PdfString};\n"),
        c.parser_encoding(),
        c.parser_objects(dict_model=True),
        dict(src="text/cmap.rs", mode="items",
             items=["enum CMapType", "struct CodeRange", "impl CodeRange", "enum CMapEntry", "struct CMap", "impl Default for CMap",
                    "impl CMap::new", "impl CMap::map", "impl CMap::is_valid_code", "impl CMap::identity_inherited",
                    "impl CMap::inherited_predefined_is", "fn increment_be", "fn calculate_offset"],
             rebind=[("use std::collections::HashMap;", "use crate::verif_shims::arraymap::HashMap;")],
             harness="C26_cmap.rs"),
    ],
    stubs_doc=["std HashMap (single_mappings cache) -> array model (capacity 2; empty in the bfrange/codespace obligations, two symbolic entries in the bfchar obligations)"],
    outside_claim=[
        "the PostScript tokenizer/parser (tokenize_cmap, CMap::parse) and ToUnicodeCMapBuilder::build -> parse round trip (string formatting and parsing both ways)",
        "how the parser fills the cache: bfchar entries and the array form of bfrange are decided only from the cache onwards (two entries placed directly in single_mappings)",
        "codes of 4 bytes; more than one range; more than two bfchar entries; to_unicode's UTF-16 decoding",
        "code-space membership of codes that are numerically inside [start, end] but outside the per-byte rectangle (Adobe TN 5014 reads ranges per byte, pdf.js/mupdf and this library numerically): contested, no obligation either way",
    ],
    trusted=["big-endian arithmetic reference in harness/C26_cmap.rs"],
)

MANIFEST = dict(
    text="Bounded model checking of CMap::map / is_valid_code / CodeRange::contains / calculate_offset / increment_be (sliced from text/cmap.rs) on a CMap value built directly: for one offset-form bfrange with 1-, 2- (quick) and 3-byte (thorough) codes, EVERY start <= end, destination and looked-up code, the result is dst + (code - start) as big-endian integers with carry across bytes, codes outside the range are unmapped and codes of another length are outside the code space; code-space gating with ARBITRARY range bounds (1- and 2-byte codes quick, 3-byte thorough): every code inside the per-byte range is accepted, every code numerically outside it or of another length is rejected; two bfchar entries next to a bfrange (1- and 2-byte codes): each key maps to its own destination, takes precedence over the range, a longer code with a key as prefix is unmapped, every other code follows the range arithmetic; calculate_offset on codes up to 9 bytes never panics and is the saturating difference; increment_be is +1 with carry and reports overflow.",
    note="Outside: the CMap text parser and the ToUnicode builder round trip (string formatting/parsing), more than two bfchar entries / one range, 4-byte codes; codes numerically inside but per-byte outside a code-space range carry no obligation (contested reading).",
)
