SPEC = dict(
    id="C27",
    title="Page labels follow the numbering styles of the specification",
    stubbing=True,
    modules=[
        dict(src="page_labels/page_label.rs", mode="whole", harness="C27_label.rs"),
        dict(src="page_labels/page_label_tree.rs", mode="whole", harness="C27_tree.rs",
             rebind=[("use std::collections::BTreeMap;", "use crate::verif_shims::sortedmap::BTreeMap;")]),
    ],
    extra_modules={"page_labels/mod.rs": "pub use page_label::{PageLabel, PageLabelRange, PageLabelStyle};\npub use page_label_tree::PageLabelTree;\n"},
    lib_extra="pub mod objects { pub use crate::verif_shims::objects_min::*; }\n",
    shims=["string_ascii", "sortedmap", "objects_min"],
    stubs_doc=[
        "String::insert -> verif_shims::string_insert_ascii (asserts the char is ASCII; element-wise Vec::insert)",
        "str::to_uppercase -> verif_shims::str_to_uppercase_ascii (asserts ASCII input) in roman_styles only",
        "std::collections::BTreeMap -> fixed-capacity sorted array (ascending iteration, capacity 4)",
        "crate::objects::{Object,Dictionary,Array} -> minimal stand-ins (only to_dict/from_dict, which no harness calls, use them)",
    ],
    outside_claim=[
        "decimal style (u32::to_string is std integer formatting, trusted)",
        "letters beyond 130 and Roman numerals beyond 3999 (to_roman) / 399 (styles through format)",
        "the /PageLabels number tree as written into a document and as read by other readers (to_dict/from_dict, writer)",
        "more than 3 ranges; offsets beyond 25 in the range-lookup obligation",
    ],
    trusted=["in-harness transcription of ISO 32000-1 12.4.2 (letters) and the digit-table Roman numeral reference"],
)

MANIFEST = dict(
    text="Bounded model checking of page_labels/page_label.rs and page_label_tree.rs (whole files re-rooted): to_letters for every n in 1..=130 and both cases against the 12.4.2 repeated-letter rule; to_roman for every n in 1..=3999 against an independent digit-table numeral; upper/lower Roman styles through PageLabelStyle::format for n <= 399; the numeric portion start+offset for ALL (u32,u32) pairs incl. overflow; prefix-only labels; PageLabelTree::get_label range lookup for up to 3 ranges with arbitrary start pages. The spreadsheet-style lettering from value 28 on is a listed known finding (the existing suite pins it, so it cannot be repaired without editing tests).",
    note="Trusted: Kani/CBMC, the ASCII models of String::insert/str::to_uppercase (each asserts its applicability), the sorted-array model of std BTreeMap, the in-harness spec transcriptions. Outside: decimal formatting (std), written /PageLabels tree and other readers.",
)
