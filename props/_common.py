"""Shared slices used by several properties."""

def parser_mod(extra_items=(), reexports=""):
    """parser/mod.rs: the error/result/options types every parser kernel names."""
    return dict(src="parser/mod.rs", mode="items",
                items=["type ParseResult", "struct ParseOptions", "impl Default for ParseOptions", "impl ParseOptions",
                       "enum ParseError"] + list(extra_items),
                no_uses=True,
                prelude="// re-exports the sliced kernels name through `super::` / `crate::parser::`\n" + reexports)

def parser_encoding():
    return dict(src="parser/encoding.rs", mode="items", items=["enum EncodingType", "impl EncodingType"], no_uses=True)

def parser_objects(extra_items=(), harness=None, dict_model=False):
    """parser/objects.rs: the real PdfObject value types; HashMap rebound to the array model."""
    m = dict(src="parser/objects.rs", mode="items",
             items=["struct PdfName", "struct PdfString", "struct PdfArray", "struct PdfDictionary", "struct PdfStream",
                    "enum PdfObject", "impl Default for PdfDictionary", "impl PdfDictionary", "impl Default for PdfArray",
                    "impl PdfArray", "impl PdfName", "static EMPTY_PDF_ARRAY",
                    "impl PdfObject::as_integer", "impl PdfObject::as_name", "impl PdfObject::as_dict",
                    "impl PdfObject::as_array", "impl PdfObject::as_real", "impl PdfObject::as_bool",
                    "impl PdfObject::as_string", "impl PdfObject::as_stream", "impl PdfObject::as_reference",
                    "impl PdfObject::is_null"] + list(extra_items),
             drop_uses=["super::lexer", "std::io::Read"],
             rebind=[("use std::collections::HashMap;", "use crate::verif_shims::arraymap::HashMap;")])
    if dict_model:
        # PdfDictionary (a HashMap newtype) replaced by the parameter-dictionary model
        m["items"] = [i for i in m["items"] if i not in ("struct PdfDictionary", "impl Default for PdfDictionary", "impl PdfDictionary")]
        m["prelude"] = "pub use crate::verif_shims::pdfdict_model::PdfDictionary;\n"
    if harness:
        m["harness"] = harness
    return m

FILTER_ITEMS = [
    "const MAX_DECOMPRESSED_SIZE", "const MAX_COMPRESSION_RATIO", "const RATIO_GUARD_MIN_OUTPUT",
    "fn decode_ascii_hex", "fn decode_ascii_hex_with_limit", "fn hex_digit_value",
    "fn decode_ascii85", "fn decode_ascii85_with_limit", "fn push_bounded", "fn extend_bounded",
    "fn decode_run_length", "fn decode_run_length_with_limit",
    "fn decode_lzw", "fn decode_lzw_with_limit", "struct LzwBitReader", "impl LzwBitReader",
    "fn apply_predictor", "fn apply_png_predictor_advanced", "fn apply_png_sub_filter", "fn apply_png_up_filter",
    "fn apply_png_average_filter", "fn apply_png_paeth_filter", "fn paeth_predictor", "fn copy_with_limit",
]

def parser_filters(harness):
    return dict(src="parser/filters.rs", mode="items", items=list(FILTER_ITEMS),
                drop_uses=["flate2", "filter_impls", "std::io::Read"], harness=harness)

FILTER_STUBS_DOC = [
    "alloc::fmt::format -> empty String (error-message text is never inspected)",
    "parser::objects::PdfDictionary (HashMap newtype) -> verif_shims::pdfdict_model::PdfDictionary (6 slots, &'static str keys): only `get`/`contains_key` are used by the kernels",
    "Vec::new/with_capacity/push/extend_from_slice -> head-room models without the realloc path (assert the 48-element head-room suffices)",
    "error values are mem::forget-ten in harnesses (ParseError::Io's drop glue is a known CBMC blow-up)",
]
