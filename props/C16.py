MODELS = '''
// ---- environment models for the rotate.rs slice (I/O types the sliced methods only pass around) ----
'''
SPEC = dict(
    id="C16",
    title="Page operations preserve page content and geometry",
    deps=['thiserror = "2.0.12"'],
    modules=[
        dict(src="operations/mod.rs", mode="items",
             items=["type OperationResult", "enum OperationError", "enum PageRange", "impl PageRange"],
             no_uses=True, prelude="use crate::error::PdfError;\n", harness="C16_range.rs"),
        dict(src="operations/rotate.rs", mode="items",
             items=["enum RotationAngle", "impl RotationAngle", "struct PageRotator", "impl PageRotator::new",
                    "impl PageRotator::create_rotated_page", "impl PageRotator::create_page_copy"],
             harness="C16_rotate.rs"),
        dict(src="page.rs", mode="items", items=["impl Page::set_rotation", "impl Page::get_rotation"], no_uses=True,
             prelude=("// model of Page: only the rotation field; from_parsed_with_content copies the parsed\n"
                      "// page's rotation verbatim, as page.rs does (`page.rotation = parsed_page.rotation`)\n"
                      "pub struct Page { pub(crate) rotation: i32 }\n"
                      "impl Page {\n    pub fn from_parsed_with_content<R>(p: &crate::parser::page_tree::ParsedPage, _d: &crate::parser::PdfDocument<R>) -> Result<Page, crate::error::PdfError> {\n"
                      "        Ok(Page { rotation: p.rotation })\n    }\n}\n"),
             harness="C16_page.rs"),
    ],
    extra_modules={
        "operations/mod.rs": "pub use rotate::RotationAngle;\n",
    },
    lib_extra=("pub use page::Page;\npub struct Document;\n"
               "pub mod error { #[derive(Debug, thiserror::Error)]\n #[error(\"pdf error\")]\n pub struct PdfError; }\n"
               "pub mod parser {\n  pub mod page_tree { pub struct ParsedPage { pub rotation: i32 } }\n"
               "  pub struct PdfDocument<R> { _r: core::marker::PhantomData<R> }\n"
               "  impl<R> PdfDocument<R> { pub fn model() -> Self { Self { _r: core::marker::PhantomData } } }\n"
               "  pub struct PdfReader;\n}\n"),
    shims=[],
    stubs_doc=[
        "Page -> model struct {rotation} carrying the library's own set_rotation/get_rotation (sliced from page.rs); Page::from_parsed_with_content -> verbatim copy of ParsedPage.rotation (what page.rs does for that field)",
        "ParsedPage / PdfDocument / PdfReader / Document / PdfError -> empty models (the sliced methods only pass them around)",
    ],
    outside_claim=[
        "everything that touches a parsed page's content, resources and boxes (Page::from_parsed_with_content itself, the MediaBox-origin defect the property cites)",
        "split / merge / reorder / extract file-level operations (I/O)",
        "PageRange::parse (string splitting / usize parsing)", "documents of more than 4 pages in get_indices; lists of other lengths than 3",
    ],
    trusted=["the model of Page::from_parsed_with_content's rotation handling (page.rs: `page.rotation = parsed_page.rotation`)"],
)

MANIFEST = dict(
    text="Bounded model checking of the rotation and selection kernels behind the page operations: RotationAngle::from_degrees for ALL i32, combine for all 16 pairs, Page::set_rotation for ALL i32, PageRotator::create_rotated_page / create_page_copy for every source /Rotate in i32 x every requested angle (output rotation == original + requested mod 360, no overflow), PageRange::get_indices for All/Single/Range/List with arbitrary usize operands on documents of 1, 3 (quick) and 4 (thorough) pages (exact selection, order and duplicates preserved).",
    note="Trusted: Kani/CBMC; the Page model (rotation field only) and the modelled from_parsed_with_content. Outside: page content/resources/boxes (incl. the MediaBox-origin defect named in the property, which needs the whole parsed-page copy), file-level split/merge/reorder, PageRange::parse.",
)
