from props import _common as c

SPEC = dict(
    id="C03",
    title="Written files are structurally valid PDF",
    deps=['thiserror = "2.0.12"'],
    stubbing=True,
    shims=["arraymap", "fmt", "tracing", "string_ascii", "pdfdict_model"],
    modules=[
        c.parser_mod(reexports="pub use objects::{PdfArray, PdfDictionary, PdfName, PdfObject, PdfStream, PdfString};\n"),
        c.parser_encoding(),
        c.parser_objects(dict_model=True),
        dict(src="parser/xref_stream.rs", mode="items",
             items=["enum XRefEntry", "struct XRefStream", "impl XRefStream::to_xref_entries", "fn read_field"],
             drop_uses=["std::io"]),
        dict(src="objects/primitive.rs", mode="items", items=["struct ObjectId", "impl ObjectId"], no_uses=True),
        dict(src="writer/xref_stream_writer.rs", mode="items",
             items=["struct XRefStreamWriter", "impl XRefStreamWriter::new", "impl XRefStreamWriter::add_free_entry",
                    "impl XRefStreamWriter::add_in_use_entry", "impl XRefStreamWriter::add_compressed_entry",
                    "impl XRefStreamWriter::bytes_needed", "impl XRefStreamWriter::encode_entries", "impl XRefStreamWriter::write_field"],
             no_uses=True, prelude="use crate::objects::ObjectId;\nuse crate::parser::xref_stream::XRefEntry;\n",
             harness="C03_xrefstream.rs"),
    ],
    extra_modules={"objects/mod.rs": "pub use primitive::ObjectId;\n"},
    stubs_doc=c.FILTER_STUBS_DOC,
    outside_claim=[
        "everything about whole files: header, classic xref table text (20-byte entries), object offsets actually recorded by write_bytes/current_position, startxref, /Size, stream /Length, reference resolution, an independent checker, strict-mode reopening",
        "name/string token validity (decided under C09/C30)", "more than two entries; the xref stream dictionary (/W, /Index, /Size emission) and its compression",
    ],
    trusted=["the reader side used as the oracle is the library's own XRefStream::to_xref_entries (itself checked for panics under C01)"],
)

MANIFEST = dict(
    text="Kernel-level only: bounded model checking of the xref-STREAM entry codec across writer and reader -- XRefStreamWriter::{add_*_entry, bytes_needed, encode_entries, write_field} (sliced from writer/xref_stream_writer.rs) followed by the reader's XRefStream::to_xref_entries (sliced from parser/xref_stream.rs): two arbitrary entries (free / in use with ANY u64 offset / compressed, any generation, stream number, index) are read back exactly as written with the widths the writer chose; bytes_needed is exact for every u64.",
    note="This decides one sentence of C03 ('every cross-reference entry points at the exact byte') for the stream form and at codec level only. Whole-file structure (offsets actually recorded, startxref, /Size, /Length, references, independent checker) is outside; token validity is under C09/C30.",
)
