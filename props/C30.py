from props import _writer
SPEC = _writer.spec("C30", "Page resource names chosen by the user cannot break the page", "W_serializer.rs")
SPEC["only_obligations"] = ["name_token_1", "name_token"]
SPEC["outside_claim"] = [
    "which API entry points accept names (Page / forms plumbing) and the resource dictionaries they end up in",
    "name operands in content streams (graphics/ops.rs serialize_ops: formatted with write!/format!, not assembled)",
    "names longer than 2 characters, non-ASCII names; reading back with the library's lexer or qpdf",
]
MANIFEST = dict(
    text="Bounded model checking of the Name arm of the writer's object serializer (the one place every user-chosen resource/field name passes through on its way into a dictionary): for every 1- and 2-character ASCII name the emitted token must be a single ISO 32000-1 7.3.5 name token that reads back as the same name. It is not, for names containing white-space, delimiters, '#' or control characters (written raw): listed known finding C30-K1; every other name is decided.",
    note="Kernel-level: only the serializer's Name arm. Outside: API plumbing, content-stream name operands, longer / non-ASCII names.",
)
