from props import _common as c

SPEC = dict(
    id="C21",
    title="Content streams parse back to the operators that were written",
    deps=['thiserror = "2.0.12"'],
    stubbing=True,
    shims=["arraymap", "fmt", "tracing", "string_ascii", "pdfdict_model"],
    modules=[
        c.parser_mod(reexports="pub use objects::{PdfArray, PdfDictionary, PdfName, PdfObject, PdfStream, PdfString};\n"),
        c.parser_encoding(),
        c.parser_objects(dict_model=True),
        dict(src="text/encoding.rs", mode="items", items=["fn escape_show_text_literal_bytes"], no_uses=True),
        dict(src="parser/content.rs", mode="items",
             items=["enum Token", "struct ContentTokenizer", "impl ContentTokenizer"], drop_uses=["crate::objects", "std::collections"],
             harness="C21_content.rs"),
    ],
    stubs_doc=c.FILTER_STUBS_DOC,
    outside_claim=[
        "the operator emitter (graphics/ops.rs serialize_ops: write!/format! with f64 operands -- float formatting is out of reach) and the operator-level ContentParser (heap token stacks); numeric operands, marked-content properties",
        "termination of the tokenizer on arbitrary bytes beyond name tokens (C01 name_token): other token kinds reach std float parsing",
        "payloads longer than 3 bytes; next_token's dispatch (recursive; its numeric arm reaches std float parsing)",
    ],
    trusted=["none beyond Kani/CBMC and the Vec head-room / fmt stubs (the oracle is the input itself)"],
)

MANIFEST = dict(
    text="Kernel-level: bounded model checking of the show-text string path across emitter and parser -- text::encoding::escape_show_text_literal_bytes (named escapes, parentheses, backslash, three-digit octal for everything else) followed by the real ContentTokenizer::read_literal_string (what next_token dispatches to on an opening parenthesis): every 1- and 2-byte payload (quick; all byte values incl. the octal escapes) and every 3-byte payload (thorough) is read back as exactly the bytes that were written, as one string token ending at the closing parenthesis.",
    note="Only the string operand of show-text operators is decided. Outside: the operator emitter with numeric operands (float formatting), ContentParser, marked content, general tokenizer termination.",
)
