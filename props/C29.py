SPEC = dict(
    id="C29",
    title="The object cache behaves as a bounded least-recently-used map",
    modules=[
        dict(src="memory/cache.rs", mode="items", items=["struct LruCache", "impl LruCache"],
             drop_uses=["crate::objects", "crate::parser", "std::sync"],
             rebind=[("use std::collections::{HashMap, VecDeque};", "use crate::verif_shims::arraymap::{HashMap, VecDeque};")],
             harness="C29_lru.rs"),
    ],
    shims=["arraymap"],
    stubs_doc=[
        "std::collections::HashMap -> verif_shims::arraymap::HashMap (finite map over 8 slots, capacity overflow asserts 'outside bound')",
        "std::collections::VecDeque -> verif_shims::arraymap::VecDeque (sequence over 8 slots)",
    ],
    outside_claim=[
        "ObjectCache: RwLock-guarded sharing and any concurrent interleaving (Kani has no threads; every ObjectCache method takes the write lock for the whole LruCache call, by inspection)",
        "capacities above 4; key/value types other than u8 (the code is generic and never inspects them beyond Eq/Clone)",
        "std HashMap/VecDeque themselves",
    ],
    trusted=["array models of HashMap/VecDeque", "the abstract LRU transition written in harness/C29_lru.rs"],
)

MANIFEST = dict(
    text="Bounded model checking of LruCache::{new,get,put,clear,len} (sliced from memory/cache.rs) by one inductive step: from EVERY valid state (capacity c in 0..=4, m <= c distinct symbolic keys in symbolic recency order with symbolic values) one get or put with an arbitrary key/value returns what an abstract LRU map returns and ends in the abstract post-state (exact recency order, values, size <= capacity, evicted key = least recently used), which re-establishes the representation invariant -- so operation histories of any length are covered by induction, not by enumeration.",
    note="Trusted: Kani/CBMC; std HashMap and VecDeque replaced by fixed-capacity array models (std containers are environment); the abstract LRU step transcribed in the harness. Outside: ObjectCache's RwLock and every concurrent schedule (Kani does not model threads), capacities > 4. Quick tier: capacities 0..2 plus the full states (3,3) and (4,4); thorough: all 15 (capacity, occupancy) pairs.",
)
