// C07 — every filter decodes what a reference encoder encoded (child module of the sliced
// parser/filters.rs).  Reference ENCODERS are written here from ISO 32000-1 7.4.2 (ASCIIHex),
// 7.4.3 (ASCII85), 7.4.5 (RunLength) and 7.4.4.4 / PNG 1.2 section 6 (row filters), on fixed
// arrays; the assertion is always decode(encode(x)) == x for every x within the bound.
use crate::verif_known as known;
use crate::parser::objects::{PdfDictionary as Dict, PdfObject as Obj};

fn eq_bytes(got: &[u8], want: &[u8]) -> bool {
    if got.len() != want.len() {
        return false;
    }
    let mut i = 0;
    while i < want.len() {
        if got[i] != want[i] {
            return false;
        }
        i += 1;
    }
    true
}

fn hex_digit(n: u8, lower: bool) -> u8 {
    if n < 10 { b'0' + n } else if lower { b'a' + (n - 10) } else { b'A' + (n - 10) }
}

fn ws_byte(k: u8) -> u8 {
    // the six PDF white-space characters (7.2.2 Table 1)
    match k % 6 { 0 => 0x00, 1 => 0x09, 2 => 0x0A, 3 => 0x0C, 4 => 0x0D, _ => 0x20 }
}

// ---------------------------------------------------------------- ASCIIHex
// encoded form: h l (ws) h l ... '>' junk   -- one white-space byte inserted after digit WSPOS
fn hex_rt<const KF: usize, const N: usize, const ENC: usize, const WSPOS: usize>() {
    let payload: [u8; N] = kani::any();
    let lower: bool = kani::any();
    let wsk: u8 = kani::any();
    let junk: u8 = kani::any();
    kani::assume(known::hex_rt::<KF>(N, false, junk));
    let mut enc = [0u8; ENC];
    let mut k = 0;
    let mut d = 0; // digits written
    let mut i = 0;
    while i < N {
        enc[k] = hex_digit(payload[i] >> 4, lower); k += 1; d += 1;
        if d == WSPOS { enc[k] = ws_byte(wsk); k += 1; }
        enc[k] = hex_digit(payload[i] & 15, lower); k += 1; d += 1;
        if d == WSPOS { enc[k] = ws_byte(wsk); k += 1; }
        i += 1;
    }
    enc[k] = b'>'; k += 1;
    enc[k] = junk; k += 1;
    assert!(k == ENC);
    match decode_ascii_hex(&enc) {
        Ok(v) => assert!(eq_bytes(&v, &payload), "ASCIIHex: decode(encode(x)) != x"),
        Err(e) => { std::mem::forget(e); assert!(false, "ASCIIHex: a well-formed encoding is rejected"); }
    }
    kani::cover!(true, "end reached");
}
// @ob id=hex_rt_n0 kfgroup=hex_rt known="n: usize, odd: bool, junk: u8" unwind=4 unwindset="decode_ascii_hex_with_limit.0:3" stubs=fmt,vec tier=quick timeout=600 bound="ASCIIHex: empty payload, EOD '>' + one arbitrary trailing byte"
fn hex_rt_n0<const KF: usize>() { hex_rt::<KF, 0, 2, 99>() }
// @ob id=hex_rt_n1 kfgroup=hex_rt known="n: usize, odd: bool, junk: u8" unwind=7 unwindset="decode_ascii_hex_with_limit.0:4" stubs=fmt,vec tier=quick timeout=600 bound="ASCIIHex: 1 payload byte (all values), either digit case, one arbitrary white-space byte between the two digits, '>' + one arbitrary trailing byte"
fn hex_rt_n1<const KF: usize>() { hex_rt::<KF, 1, 5, 1>() }
// @ob id=hex_rt_n2 kfgroup=hex_rt known="n: usize, odd: bool, junk: u8" unwind=9 unwindset="decode_ascii_hex_with_limit.0:5" stubs=fmt,vec tier=quick timeout=600 bound="ASCIIHex: 2 payload bytes, white-space after the 2nd digit, '>' + trailing byte"
fn hex_rt_n2<const KF: usize>() { hex_rt::<KF, 2, 7, 2>() }
// @ob id=hex_rt_n3 kfgroup=hex_rt known="n: usize, odd: bool, junk: u8" unwind=11 unwindset="decode_ascii_hex_with_limit.0:6" stubs=fmt,vec tier=thorough timeout=900 bound="ASCIIHex: 3 payload bytes, white-space after the 3rd digit, '>' + trailing byte"
fn hex_rt_n3<const KF: usize>() { hex_rt::<KF, 3, 9, 3>() }

// 7.4.2: an odd number of digits before '>' behaves as if a 0 followed the last digit
// @ob id=hex_odd kfgroup=hex_rt known="n: usize, odd: bool, junk: u8" unwind=7 unwindset="decode_ascii_hex_with_limit.0:5" stubs=fmt,vec tier=quick timeout=600 bound="ASCIIHex: 1 full byte + one final odd digit, '>' + one arbitrary trailing byte"
fn hex_odd<const KF: usize>() {
    let b0: u8 = kani::any();
    let hi: u8 = kani::any();
    kani::assume(hi < 16);
    let lower: bool = kani::any();
    let junk: u8 = kani::any();
    kani::assume(known::hex_rt::<KF>(1, true, junk));
    let enc = [hex_digit(b0 >> 4, lower), hex_digit(b0 & 15, lower), hex_digit(hi, lower), b'>', junk];
    match decode_ascii_hex(&enc) {
        Ok(v) => assert!(eq_bytes(&v, &[b0, hi << 4]), "ASCIIHex: odd final digit is not padded with 0 / data after '>' is decoded"),
        Err(e) => { std::mem::forget(e); assert!(false, "ASCIIHex: a well-formed encoding with an odd digit count is rejected"); }
    }
    kani::cover!(junk == b'4', "hex digit after the end marker reached");
    kani::cover!(true, "end reached");
}

// ---------------------------------------------------------------- ASCII85
// full group of 4 bytes (value != 0 -> 5 digits), then "~>"
// @ob id=a85_full known="v: u32" unwind=8 stubs=fmt,vec tier=quick timeout=1500 mem=24 bound="ASCII85: one full 4-byte group with non-zero value (all 2^32-1 values), optional '<~' prefix, one arbitrary white-space byte after the 2nd digit, '~>'"
fn a85_full<const KF: usize>() {
    // digits are the symbolic input (no 32-bit division in the harness): every 5-digit group
    // whose value fits 32 bits and is non-zero, i.e. exactly the images of the encoder
    let dg: [u8; 5] = kani::any();
    kani::assume(dg[0] < 85 && dg[1] < 85 && dg[2] < 85 && dg[3] < 85 && dg[4] < 85);
    // (Horner form, the same association the decoder uses: equivalence of two differently associated
    // multiplier trees is a notoriously hard SAT instance, this one is easy)
    let v64 = (((dg[0] as u64 * 85 + dg[1] as u64) * 85 + dg[2] as u64) * 85 + dg[3] as u64) * 85 + dg[4] as u64;
    kani::assume(v64 != 0 && v64 <= u32::MAX as u64);
    let v = v64 as u32;
    kani::assume(known::a85_full::<KF>(v));
    let d = [dg[0] + b'!', dg[1] + b'!', dg[2] + b'!', dg[3] + b'!', dg[4] + b'!'];
    let wsk: u8 = kani::any();
    let enc = [d[0], d[1], ws_byte(wsk), d[2], d[3], d[4], b'~', b'>'];
    let want = [(v >> 24) as u8, (v >> 16) as u8, (v >> 8) as u8, v as u8];
    match decode_ascii85(&enc) {
        Ok(got) => assert!(eq_bytes(&got, &want), "ASCII85: decode(encode(x)) != x for a full group"),
        Err(e) => { std::mem::forget(e); assert!(false, "ASCII85: a well-formed full group is rejected"); }
    }
    kani::cover!(v == u32::MAX, "s8W-! reached");
    kani::cover!(true, "end reached");
}
// zero group -> 'z', followed by a partial group of 1 byte
// @ob id=a85_z_partial1 unwind=7 stubs=fmt,vec tier=quick timeout=1500 mem=24 bound="ASCII85: 'z' (four zero bytes) followed by a final partial group of 1 byte (all values), '~>'"
fn a85_z_partial1<const KF: usize>() {
    // 1 byte b -> value b<<24 -> first two base-85 digits (b*2^24 div 85^4, then div 85^3): small tables avoided
    // by letting the two digits be symbolic and tying them to b through the defining inequality
    let b: u8 = kani::any();
    let d0: u8 = kani::any();
    let d1: u8 = kani::any();
    kani::assume(d0 < 85 && d1 < 85);
    let lo = (((d0 as u64 * 85 + d1 as u64) * 85) * 85) * 85;
    let val = (b as u64) << 24;
    kani::assume(lo <= val && val < lo + 614125);
    let d = [d0 + b'!', d1 + b'!'];
    let enc = [b'z', d[0], d[1], b'~', b'>'];
    match decode_ascii85(&enc) {
        Ok(got) => assert!(eq_bytes(&got, &[0, 0, 0, 0, b]), "ASCII85: 'z' + 1-byte partial group does not decode to the original"),
        Err(e) => { std::mem::forget(e); assert!(false, "ASCII85: well-formed 'z' + partial group is rejected"); }
    }
    kani::cover!(true, "end reached");
}
// partial groups of 2 and 3 bytes: the n+1 digits are symbolic and tied to the bytes by the
// defining inequality of truncated base-85 expansion (no division in the harness)
// @ob id=a85_partial2 unwind=7 stubs=fmt,vec tier=quick timeout=1500 mem=24 bound="ASCII85: a final partial group of 2 bytes (all values), with '<~' prefix, '~>'"
fn a85_partial2<const KF: usize>() {
    let b: [u8; 2] = kani::any();
    let dg: [u8; 3] = kani::any();
    kani::assume(dg[0] < 85 && dg[1] < 85 && dg[2] < 85);
    let lo = ((((dg[0] as u64 * 85 + dg[1] as u64) * 85 + dg[2] as u64) * 85) * 85);
    let val = ((b[0] as u64) << 24) | ((b[1] as u64) << 16);
    kani::assume(lo <= val && val < lo + 7225);
    let enc = [b'<', b'~', dg[0] + b'!', dg[1] + b'!', dg[2] + b'!', b'~', b'>'];
    match decode_ascii85(&enc) {
        Ok(got) => assert!(eq_bytes(&got, &b), "ASCII85: 2-byte partial group does not decode to the original"),
        Err(e) => { std::mem::forget(e); assert!(false, "ASCII85: well-formed 2-byte partial group is rejected"); }
    }
    kani::cover!(b[0] == 0xFF && b[1] == 0xFF, "largest value reached");
    kani::cover!(true, "end reached");
}
// @ob id=a85_partial3 unwind=7 stubs=fmt,vec tier=quick timeout=1500 mem=24 bound="ASCII85: a final partial group of 3 bytes (all values), '~>'"
fn a85_partial3<const KF: usize>() {
    let b: [u8; 3] = kani::any();
    let dg: [u8; 4] = kani::any();
    kani::assume(dg[0] < 85 && dg[1] < 85 && dg[2] < 85 && dg[3] < 85);
    let lo = (((dg[0] as u64 * 85 + dg[1] as u64) * 85 + dg[2] as u64) * 85 + dg[3] as u64) * 85;
    let val = ((b[0] as u64) << 24) | ((b[1] as u64) << 16) | ((b[2] as u64) << 8);
    kani::assume(lo <= val && val < lo + 85);
    let enc = [dg[0] + b'!', dg[1] + b'!', dg[2] + b'!', dg[3] + b'!', b'~', b'>'];
    match decode_ascii85(&enc) {
        Ok(got) => assert!(eq_bytes(&got, &b), "ASCII85: 3-byte partial group does not decode to the original"),
        Err(e) => { std::mem::forget(e); assert!(false, "ASCII85: well-formed 3-byte partial group is rejected"); }
    }
    kani::cover!(b[0] == 0xFF && b[2] == 0xFF, "large value reached");
    kani::cover!(true, "end reached");
}

// ---------------------------------------------------------------- RunLength
// @ob id=rle_literal unwind=10 stubs=fmt,vec tier=quick timeout=900 bound="RunLength: a literal run of 1..=3 arbitrary bytes followed by a repeat run of 2..=4 copies of an arbitrary byte, EOD (128), one trailing byte"
fn rle_literal<const KF: usize>() {
    let lit: [u8; 3] = kani::any();
    let n: usize = kani::any();
    kani::assume(n >= 1 && n <= 3);
    let rep: u8 = kani::any();
    let cnt: usize = kani::any();
    kani::assume(cnt >= 2 && cnt <= 4);
    let junk: u8 = kani::any();
    let mut enc = [0u8; 8];
    let mut k = 0;
    enc[k] = (n - 1) as u8; k += 1;
    let mut i = 0;
    while i < n { enc[k] = lit[i]; k += 1; i += 1; }
    enc[k] = (257 - cnt) as u8; k += 1;
    enc[k] = rep; k += 1;
    enc[k] = 128; k += 1;
    enc[k] = junk; k += 1;
    let mut want = [0u8; 7];
    let mut w = 0;
    i = 0;
    while i < n { want[w] = lit[i]; w += 1; i += 1; }
    i = 0;
    while i < cnt { want[w] = rep; w += 1; i += 1; }
    match decode_run_length(&enc[..k]) {
        Ok(got) => assert!(eq_bytes(&got, &want[..w]), "RunLength: decode(encode(x)) != x"),
        Err(e) => { std::mem::forget(e); assert!(false, "RunLength: a well-formed encoding is rejected"); }
    }
    kani::cover!(n == 3 && cnt == 4, "longest case reached");
    kani::cover!(true, "end reached");
}

// ---------------------------------------------------------------- PNG predictors
fn spec_paeth(a: u8, b: u8, c: u8) -> u8 {
    // PNG 1.2 section 6.6
    let p = a as i32 + b as i32 - c as i32;
    let pa = (p - a as i32).abs();
    let pb = (p - b as i32).abs();
    let pc = (p - c as i32).abs();
    if pa <= pb && pa <= pc { a } else if pb <= pc { b } else { c }
}
/// reference PNG *filtering* (encoding) of one row
fn png_filter_row<const ROWB: usize, const BPP: usize>(ft: u8, raw: &[u8; ROWB], prior: &[u8; ROWB], out: &mut [u8; ROWB]) {
    let mut i = 0;
    while i < ROWB {
        let a = if i >= BPP { raw[i - BPP] } else { 0 };
        let b = prior[i];
        let c = if i >= BPP { prior[i - BPP] } else { 0 };
        let pred = match ft {
            0 => 0,
            1 => a,
            2 => b,
            3 => ((a as u16 + b as u16) / 2) as u8,
            _ => spec_paeth(a, b, c),
        };
        out[i] = raw[i].wrapping_sub(pred);
        i += 1;
    }
}
fn png_rt<const KF: usize, const COLS: i64, const COLORS: i64, const BPC: i64, const ROWB: usize, const BPP: usize, const ENC: usize>(mk: fn() -> Dict) {
    let r0: [u8; ROWB] = kani::any();
    let r1: [u8; ROWB] = kani::any();
    let f0: u8 = kani::any();
    let f1: u8 = kani::any();
    let pred: u32 = kani::any();
    kani::assume(f0 <= 4 && f1 <= 4 && pred >= 10 && pred <= 15);
    let zero = [0u8; ROWB];
    let mut e0 = [0u8; ROWB];
    let mut e1 = [0u8; ROWB];
    png_filter_row::<ROWB, BPP>(f0, &r0, &zero, &mut e0);
    png_filter_row::<ROWB, BPP>(f1, &r1, &r0, &mut e1);
    let mut enc = [0u8; ENC];
    enc[0] = f0;
    let mut i = 0;
    while i < ROWB { enc[1 + i] = e0[i]; i += 1; }
    enc[1 + ROWB] = f1;
    i = 0;
    while i < ROWB { enc[2 + ROWB + i] = e1[i]; i += 1; }
    // /Columns, /Colors, /BitsPerComponent come from the per-instance constant dictionary
    // (stubs of PdfDictionary::get / PdfObject::as_integer named in the obligation line)
    let p = mk();
    match apply_predictor(&enc, pred, &p) {
        Ok(got) => {
            assert!(got.len() == 2 * ROWB, "PNG predictor: output length differs from rows x row bytes");
            assert!(eq_bytes(&got[..ROWB], &r0) && eq_bytes(&got[ROWB..], &r1), "PNG predictor: decode(filter(x)) != x");
        }
        Err(e) => { std::mem::forget(e); assert!(false, "PNG predictor: well-formed predictor data is rejected"); }
    }
    std::mem::forget(p);
    kani::cover!(f0 == 4 && f1 == 3, "Paeth first row + Average second row reached");
    kani::cover!(true, "end reached");
}
// @ob id=png_c2_k1_b8 unwind=9 unwindset="key_id.0:24,key_id.1:36" stubs=fmt,vec,params:p_c2_k1_b8 tier=quick timeout=1200 mem=32 bound="PNG predictors 10-15, Columns 2, Colors 1, 8 bit (bpp 1): 2 rows x 2 bytes, every filter type per row, all data"
fn png_c2_k1_b8<const KF: usize>() { png_rt::<KF, 2, 1, 8, 2, 1, 6>(p_c2_k1_b8::dict) }
// @ob id=png_c2_k2_b8 unwind=9 unwindset="key_id.0:24,key_id.1:36" stubs=fmt,vec,params:p_c2_k2_b8 tier=quick timeout=1200 mem=32 bound="PNG predictors 10-15, Columns 2, Colors 2, 8 bit (bpp 2): 2 rows x 4 bytes, every filter type per row, all data"
fn png_c2_k2_b8<const KF: usize>() { png_rt::<KF, 2, 2, 8, 4, 2, 10>(p_c2_k2_b8::dict) }
// @ob id=png_c1_k3_b8 unwind=9 unwindset="key_id.0:24,key_id.1:36" stubs=fmt,vec,params:p_c1_k3_b8 tier=thorough timeout=1500 mem=32 bound="PNG predictors 10-15, Columns 1, Colors 3, 8 bit (bpp 3): 2 rows x 3 bytes"
fn png_c1_k3_b8<const KF: usize>() { png_rt::<KF, 1, 3, 8, 3, 3, 8>(p_c1_k3_b8::dict) }
// @ob id=png_c2_k1_b16 unwind=9 unwindset="key_id.0:24,key_id.1:36" stubs=fmt,vec,params:p_c2_k1_b16 tier=thorough timeout=1500 mem=32 bound="PNG predictors 10-15, Columns 2, Colors 1, 16 bit (bpp 2): 2 rows x 4 bytes"
fn png_c2_k1_b16<const KF: usize>() { png_rt::<KF, 2, 1, 16, 4, 2, 10>(p_c2_k1_b16::dict) }
// @ob id=png_c8_k1_b1 unwind=9 unwindset="key_id.0:24,key_id.1:36" stubs=fmt,vec,params:p_c8_k1_b1 tier=thorough timeout=1500 mem=32 bound="PNG predictors 10-15, Columns 8, Colors 1, 1 bit (bpp 1, packed): 2 rows x 1 byte"
fn png_c8_k1_b1<const KF: usize>() { png_rt::<KF, 8, 1, 1, 1, 1, 4>(p_c8_k1_b1::dict) }
// @ob id=png_c3_k4_b4 unwind=9 unwindset="key_id.0:24,key_id.1:36" stubs=fmt,vec,params:p_c3_k4_b4 tier=quick timeout=1800 mem=32 bound="PNG predictors 10-15, Columns 3, Colors 4, 4 bit (bpp 2, row = 6 bytes): 2 rows"
fn png_c3_k4_b4<const KF: usize>() { png_rt::<KF, 3, 4, 4, 6, 2, 14>(p_c3_k4_b4::dict) }

// ---------------------------------------------------------------- TIFF predictor 2 (8-bit)
// @ob id=tiff2_b8 known="d1: u8" unwind=9 unwindset="key_id.0:24,key_id.1:36" stubs=fmt,vec,params:p_c3_k1_b8 tier=quick timeout=900 bound="Predictor 2, Columns 3, Colors 1, 8 bit: one row of 3 bytes (horizontal differencing, TIFF 6.0 section 14)"
fn tiff2_b8<const KF: usize>() {
    let raw: [u8; 3] = kani::any();
    let enc = [raw[0], raw[1].wrapping_sub(raw[0]), raw[2].wrapping_sub(raw[1])];
    kani::assume(known::tiff2_b8::<KF>(raw[0] | raw[1])); // pass-through is right only when raw[0] == raw[1] == 0
    let p = p_c3_k1_b8::dict();
    match apply_predictor(&enc, 2, &p) {
        Ok(got) => assert!(eq_bytes(&got, &raw), "TIFF predictor 2: decode(difference(x)) != x"),
        Err(e) => { std::mem::forget(e); assert!(false, "TIFF predictor 2: well-formed data is rejected"); }
    }
    std::mem::forget(p);
    kani::cover!(true, "end reached");
}
// parameter dictionaries as CONSTANTS: `PdfDictionary::get` is stubbed per instance by a function
// returning references to statics, so that CBMC's constant propagation sees concrete /Columns,
// /Colors, /BitsPerComponent and the kernel's row arithmetic and loop bounds become concrete.
macro_rules! const_params {
    ($name:ident, $cols:expr, $colors:expr, $bpc:expr) => {
        pub mod $name {
            use super::Obj;
            pub static COLS: Obj = Obj::Integer($cols);
            pub static COLORS: Obj = Obj::Integer($colors);
            pub static BPC: Obj = Obj::Integer($bpc);
            /// stub of PdfObject::as_integer: the three parameter objects are recognised by address
            /// and their values appear as literals in code (CBMC does not constant-propagate
            /// through statics/heap, but does through code constants)
            pub fn as_integer(o: &Obj) -> Option<i64> {
                if core::ptr::eq(o, &COLS) { Some($cols) }
                else if core::ptr::eq(o, &COLORS) { Some($colors) }
                else if core::ptr::eq(o, &BPC) { Some($bpc) }
                else { match o { Obj::Integer(i) => Some(*i), _ => None } }
            }
            /// the same parameters as a real dictionary value (answers the lookups in a native
            /// replay, where stubs are not applied)
            pub fn dict() -> super::Dict {
                let mut d = super::Dict::new();
                d.set_int_slot(0, "Columns", true, $cols);
                d.set_int_slot(1, "Colors", true, $colors);
                d.set_int_slot(2, "BitsPerComponent", true, $bpc);
                d
            }
            pub fn get<'a>(_d: &'a super::Dict, key: &str) -> Option<&'a Obj> {
                match crate::verif_shims::pdfdict_model::key_id(key) {
                    1 => Some(&COLS),
                    2 => Some(&COLORS),
                    3 => Some(&BPC),
                    _ => None,
                }
            }
        }
    };
}
const_params!(p_c2_k1_b8, 2, 1, 8);
const_params!(p_c2_k2_b8, 2, 2, 8);
const_params!(p_c1_k3_b8, 1, 3, 8);
const_params!(p_c2_k1_b16, 2, 1, 16);
const_params!(p_c8_k1_b1, 8, 1, 1);
const_params!(p_c3_k4_b4, 3, 4, 4);
const_params!(p_c3_k1_b8, 3, 1, 8);

// @ob id=hex_digit_table tier=quick timeout=300 bound="hex_digit_value on every byte: 0-9, A-F, a-f map to 0..=15, everything else is rejected"
fn hex_digit_table<const KF: usize>() {
    let c: u8 = kani::any();
    let want = if c >= b'0' && c <= b'9' { Some(c - b'0') } else if c >= b'A' && c <= b'F' { Some(c - b'A' + 10) } else if c >= b'a' && c <= b'f' { Some(c - b'a' + 10) } else { None };
    assert!(hex_digit_value(c) == want, "hex digit value differs from ISO 32000-1 7.4.2");
    kani::cover!(c == b'f', "lower-case digit reached");
    kani::cover!(true, "end reached");
}
