// C21 — show-text literal strings: what the text API emits (escape_show_text_literal_bytes) is read back
// by the content-stream tokenizer as the same bytes (child module of the sliced parser/content.rs).
fn roundtrip_all<const N: usize, const E: usize>() {
    let b: [u8; N] = kani::any();
    let esc = crate::text::encoding::escape_show_text_literal_bytes(&b);
    let mut buf = [0u8; E];
    buf[0] = b'(';
    let mut i = 0;
    while i < esc.len() { buf[1 + i] = esc[i]; i += 1; }
    buf[1 + esc.len()] = b')';
    let end = 2 + esc.len();
    let mut t = ContentTokenizer::new(&buf[..end]);
    match t.read_literal_string() {
        Ok(Some(Token::String(v))) => {
            assert!(v.len() == N, "the tokenizer reads a string of a different length than was written");
            let mut j = 0;
            while j < N { assert!(v[j] == b[j], "the tokenizer reads different bytes than were written"); j += 1; }
            assert!(t.position == end, "the string token does not end at the closing parenthesis");
            std::mem::forget(v);
        }
        Ok(_) => assert!(false, "the emitted operand is not read as a string token"),
        Err(e) => { std::mem::forget(e); assert!(false, "the emitted operand is rejected by the tokenizer"); }
    }
    std::mem::forget(esc);
    kani::cover!(b[0] >= 0x80, "octal-escaped byte reached");
    kani::cover!(true, "end reached");
}
// (read_literal_string is what next_token dispatches to on an opening parenthesis; calling it directly keeps
// the recursive next_token and its numeric arm -- std float parsing -- out of the query)
// @ob id=show_text_1 unwind=8 stubs=fmt,vec tier=quick timeout=1800 mem=24 bound="every 1-byte show-text payload, all 256 values (named escapes, escaped delimiters, three-digit octal escapes formatted through core::fmt)"
fn show_text_1<const KF: usize>() { roundtrip_all::<1, 6>() }
// @ob id=show_text_2 unwind=12 stubs=fmt,vec tier=quick timeout=2400 mem=30 bound="every 2-byte show-text payload, all 65536 values (covers an octal escape followed by a digit, backslash/parenthesis pairs, CR LF)"
fn show_text_2<const KF: usize>() { roundtrip_all::<2, 10>() }
// @ob id=show_text_3 unwind=16 stubs=fmt,vec tier=thorough timeout=3000 mem=30 bound="every 3-byte show-text payload"
fn show_text_3<const KF: usize>() { roundtrip_all::<3, 14>() }
