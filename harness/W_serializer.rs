// C20 / C09 / C03 / C30 — the writer's object serializer (child module of the sliced
// writer/pdf_writer/mod.rs).  The std HashMap inside `Dictionary` is the array model whose
// iteration order is SLOT order: inserting the same entries in different orders gives
// different iteration orders, i.e. hash-map order is an input of the query.
use crate::verif_known as known;
use crate::objects::{Dictionary, Object};

fn writer() -> PdfWriter<Vec<u8>> { PdfWriter { _w: core::marker::PhantomData } }
fn ascii2(a: u8, b: u8) -> String {
    let mut s = String::with_capacity(2);
    s.push(a as char);
    s.push(b as char);
    s
}
fn same(a: &[u8], b: &[u8]) -> bool {
    if a.len() != b.len() { return false; }
    let mut i = 0;
    while i < a.len() { if a[i] != b[i] { return false; } i += 1; }
    true
}
fn letter(x: u8) -> bool { (x >= b'A' && x <= b'Z') || (x >= b'a' && x <= b'z') }

fn dict_pair(k0: &'static str, k1: &'static str) {
    let v0: bool = kani::any();
    let v1: bool = kani::any();
    let mut d1 = Dictionary::new();
    d1.set(k0, Object::Boolean(v0));
    d1.set(k1, Object::Boolean(v1));
    let mut d2 = Dictionary::new();
    d2.set(k1, Object::Boolean(v1));
    d2.set(k0, Object::Boolean(v0));
    let w = writer();
    let mut b1: Vec<u8> = Vec::with_capacity(48);
    let mut b2: Vec<u8> = Vec::with_capacity(48);
    let o1 = Object::Dictionary(d1);
    let o2 = Object::Dictionary(d2);
    let r1 = w.write_object_value_to_buffer(&o1, &mut b1);
    let r2 = w.write_object_value_to_buffer(&o2, &mut b2);
    assert!(r1.is_ok() && r2.is_ok(), "serializing a dictionary of booleans fails");
    assert!(same(&b1, &b2), "the same dictionary content serializes to different bytes depending on map iteration order");
    std::mem::forget(o1); std::mem::forget(o2); std::mem::forget(r1); std::mem::forget(r2);
    kani::cover!(v0 != v1, "different values reached");
    kani::cover!(true, "end reached");
}
// @ob id=dict_order_case unwind=5 stubs=fmt,vec tier=quick timeout=1500 mem=24 bound="dictionary {/CA b0 /ca b1} (keys differing only in case, as every ExtGState written by set_opacity has) inserted in both orders, arbitrary boolean values: identical bytes"
fn dict_order_case<const KF: usize>() { dict_pair("CA", "ca") }
// @ob id=dict_order_prefix unwind=5 stubs=fmt,vec tier=quick timeout=1500 mem=24 bound="dictionary {/Type b0 /Typ b1} (one key a prefix of the other) inserted in both orders: identical bytes"
fn dict_order_prefix<const KF: usize>() { dict_pair("Type", "Typ") }

/// ISO 32000-1 7.3.4.2 reader for a literal string token starting at '(': returns the decoded
/// bytes and the index just past the closing ')' (balanced parentheses, backslash escapes,
/// end-of-line normalisation: a bare CR or CR LF inside a literal string reads as LF).
fn spec_read_literal(t: &[u8], out: &mut [u8; 8]) -> Option<(usize, usize)> {
    if t.len() == 0 || t[0] != b'(' { return None; }
    let mut depth = 1usize;
    let mut i = 1;
    let mut n = 0;
    while i < t.len() {
        let c = t[i];
        if c == b'\\' {
            if i + 1 >= t.len() { return None; }
            let e = t[i + 1];
            if e >= b'0' && e <= b'7' {
                // \d, \dd, \ddd: one to three octal digits, high-order overflow ignored (Table 3)
                let mut v: u32 = (e - b'0') as u32;
                let mut k = i + 2;
                if k < t.len() && t[k] >= b'0' && t[k] <= b'7' {
                    v = v * 8 + (t[k] - b'0') as u32; k += 1;
                    if k < t.len() && t[k] >= b'0' && t[k] <= b'7' { v = v * 8 + (t[k] - b'0') as u32; k += 1; }
                }
                if n >= 8 { return None; }
                out[n] = v as u8; n += 1;
                i = k;
                continue;
            }
            let val = match e { b'n' => 10, b'r' => 13, b't' => 9, b'b' => 8, b'f' => 12, b'(' => b'(', b')' => b')', b'\\' => b'\\', _ => e };
            if n >= 8 { return None; }
            out[n] = val; n += 1;
            i += 2;
            continue;
        }
        if c == b'(' { depth += 1; }
        if c == b')' {
            depth -= 1;
            if depth == 0 { return Some((n, i + 1)); }
        }
        let lit = if c == 13 { 10 } else { c };
        if c == 13 && i + 1 < t.len() && t[i + 1] == 10 { i += 1; }
        if n >= 8 { return None; }
        out[n] = lit; n += 1;
        i += 1;
    }
    None
}

fn string_token_n<const KF: usize, const N: usize>() {
    let b: [u8; N] = kani::any();
    let mut i = 0;
    while i < N { kani::assume(b[i] < 0x80); i += 1; }
    kani::assume(known::string_token::<KF>(b[0], if N > 1 { b[N - 1] } else { 0 }));
    let mut s = String::with_capacity(4);
    i = 0;
    while i < N { s.push(b[i] as char); i += 1; }
    let o = Object::String(s);
    let w = writer();
    let mut buf: Vec<u8> = Vec::with_capacity(16);
    let r = w.write_object_value_to_buffer(&o, &mut buf);
    assert!(r.is_ok(), "serializing a string fails");
    let mut dec = [0u8; 8];
    match spec_read_literal(&buf, &mut dec) {
        Some((n, end)) => {
            assert!(end == buf.len(), "the literal string token ends before the emitted bytes do (unbalanced / unescaped delimiter)");
            assert!(n == N, "a conforming reader decodes a different number of bytes from the emitted literal string");
            let mut j = 0;
            while j < N { assert!(dec[j] == b[j], "a conforming reader decodes different bytes from the emitted literal string"); j += 1; }
        }
        None => assert!(false, "the emitted bytes are not a well-formed literal string"),
    }
    std::mem::forget(o); std::mem::forget(r);
    kani::cover!(b[0] == b'(', "delimiter reached");
    kani::cover!(b[0] == 13, "CR reached");
    kani::cover!(true, "end reached");
}
// @ob id=string_token_1 kfgroup=string_token known="b0: u8, b1: u8" unwind=8 stubs=fmt,vec tier=quick timeout=900 mem=20 bound="Object::String with every 1-byte content in 0x00-0x7F: the emitted token is one balanced literal string that an ISO 32000-1 7.3.4.2 reader (escapes, nesting, CR/CRLF -> LF normalisation) decodes to the same byte and that ends exactly at the final ')'"
fn string_token_1<const KF: usize>() { string_token_n::<KF, 1>() }
// @ob id=string_token_2 kfgroup=string_token known="b0: u8, b1: u8" unwind=9 stubs=fmt,vec tier=quick timeout=1500 mem=24 bound="Object::String with every 2-byte ASCII content (both bytes 0x00-0x7F): same assertion (covers backslash/parenthesis/CR-LF pairs)"
fn string_token_2<const KF: usize>() { string_token_n::<KF, 2>() }

fn regular_name_char(c: u8) -> bool {
    // 7.3.5: regular characters except '#'; outside '!'..='~' must be written as #xx
    c >= b'!' && c <= b'~' && c != b'#' && c != b'(' && c != b')' && c != b'<' && c != b'>' && c != b'[' && c != b']' && c != b'{' && c != b'}' && c != b'/' && c != b'%'
}
fn hexv(c: u8) -> Option<u8> {
    match c { b'0'..=b'9' => Some(c - b'0'), b'A'..=b'F' => Some(c - b'A' + 10), b'a'..=b'f' => Some(c - b'a' + 10), _ => None }
}
/// 7.3.5 reader: '/' then regular characters / #xx escapes; returns decoded bytes and the end index
fn spec_read_name(t: &[u8], out: &mut [u8; 8]) -> Option<(usize, usize)> {
    if t.len() == 0 || t[0] != b'/' { return None; }
    let mut i = 1;
    let mut n = 0;
    while i < t.len() {
        let c = t[i];
        if c == b'#' {
            if i + 2 >= t.len() + 0 && i + 2 > t.len() - 1 + 1 { return None; }
            if i + 2 >= t.len() + 1 { return None; }
            let (h, l) = (hexv(t[i + 1])?, hexv(t[i + 2])?);
            if n >= 8 { return None; }
            out[n] = (h << 4) | l; n += 1;
            i += 3;
            continue;
        }
        if !regular_name_char(c) { break; }
        if n >= 8 { return None; }
        out[n] = c; n += 1;
        i += 1;
    }
    Some((n, i))
}

// @ob id=name_token known="b0: u8, b1: u8" unwind=9 stubs=fmt,vec tier=quick timeout=1500 mem=20 bound="Object::Name with every 2-character ASCII name (0x01-0x7F each): the emitted token is one name token (7.3.5) that reads back as the same name"
fn name_token<const KF: usize>() {
    let b: [u8; 2] = kani::any();
    kani::assume(b[0] >= 1 && b[0] < 0x80 && b[1] >= 1 && b[1] < 0x80);
    kani::assume(known::name_token::<KF>(b[0], b[1]));
    let o = Object::Name(ascii2(b[0], b[1]));
    let w = writer();
    let mut buf: Vec<u8> = Vec::with_capacity(16);
    let r = w.write_object_value_to_buffer(&o, &mut buf);
    assert!(r.is_ok(), "serializing a name fails");
    let mut dec = [0u8; 8];
    match spec_read_name(&buf, &mut dec) {
        Some((n, end)) => {
            assert!(end == buf.len(), "the name token ends before the emitted bytes do (an unescaped delimiter or white-space splits it)");
            assert!(n == 2 && dec[0] == b[0] && dec[1] == b[1], "the emitted name token reads back as a different name");
        }
        None => assert!(false, "the emitted bytes are not a name token"),
    }
    std::mem::forget(o); std::mem::forget(r);
    kani::cover!(b[0] == b'A' && b[1] == b'1', "ordinary name reached");
    kani::cover!(true, "end reached");
}

// @ob id=name_token_1 kfgroup=name_token1 known="b0: u8" unwind=8 stubs=fmt,vec tier=quick timeout=900 mem=20 bound="Object::Name with every 1-character ASCII name (0x01-0x7F): one 7.3.5 name token that reads back as the same name"
fn name_token_1<const KF: usize>() {
    let b0: u8 = kani::any();
    kani::assume(b0 >= 1 && b0 < 0x80);
    kani::assume(known::name_token1::<KF>(b0));
    let mut n = String::with_capacity(2);
    n.push(b0 as char);
    let o = Object::Name(n);
    let w = writer();
    let mut buf: Vec<u8> = Vec::with_capacity(16);
    let r = w.write_object_value_to_buffer(&o, &mut buf);
    assert!(r.is_ok(), "serializing a name fails");
    let mut dec = [0u8; 8];
    match spec_read_name(&buf, &mut dec) {
        Some((n, end)) => {
            assert!(end == buf.len(), "the name token ends before the emitted bytes do (an unescaped delimiter or white-space splits it)");
            assert!(n == 1 && dec[0] == b0, "the emitted name token reads back as a different name");
        }
        None => assert!(false, "the emitted bytes are not a name token"),
    }
    std::mem::forget(o); std::mem::forget(r);
    kani::cover!(b0 == b'X', "ordinary name reached");
    kani::cover!(true, "end reached");
}
