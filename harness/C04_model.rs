
// ---- environment model (always compiled): the file as a /Prev chain of three revisions ------
// The merge loop under test only (a) asks where the newest cross-reference section is,
// (b) seeks there, (c) has that section parsed into an XRefTable, (d) follows /Prev.  Those
// I/O + text-parsing steps are modelled: each revision states, for object numbers 1 and 2,
// one of absent / in use at an offset / free / compressed (stream, index) -- built exactly as
// parse_primary_with_options builds them (a compressed object gets a placeholder in `entries`
// AND a record in `extended_entries`; xref.rs "Copy entries from xref stream").
pub const VERIF_OFFS: [u64; 3] = [100, 200, 300];
pub static mut VERIF_KIND: [[u8; 2]; 3] = [[0; 2]; 3];      // 0 absent, 1 in use, 2 free, 3 compressed
pub static mut VERIF_OFF: [[u64; 2]; 3] = [[0; 2]; 3];
pub static mut VERIF_GEN: [[u16; 2]; 3] = [[0; 2]; 3];
pub static mut VERIF_CI: [[(u32, u32); 2]; 3] = [[(0, 0); 2]; 3];
pub static mut VERIF_PREV: [u8; 3] = [255; 3];               // index of the previous revision, 255 = none
pub static mut VERIF_START: u8 = 2;

impl XRefTable {
    fn find_xref_offset<R: Read + Seek>(_reader: &mut BufReader<R>) -> ParseResult<u64> {
        Ok(VERIF_OFFS[unsafe { VERIF_START } as usize])
    }
    fn scan_and_fill_missing_objects<R: Read + Seek>(_reader: &mut BufReader<R>, _table: &mut Self) -> ParseResult<()> {
        Ok(())
    }
    fn parse_primary_with_options<R: Read + Seek>(reader: &mut BufReader<R>, _options: &super::ParseOptions) -> ParseResult<Self> {
        let pos = reader.stream_position()?;
        let r = if pos == VERIF_OFFS[0] { 0 } else if pos == VERIF_OFFS[1] { 1 } else if pos == VERIF_OFFS[2] { 2 } else { return Err(ParseError::InvalidXRef) };
        let mut table = Self::new();
        table.xref_offset = pos;
        let mut j = 0;
        while j < 2 {
            let obj_num = (j + 1) as u32;
            let (kind, off, generation, ci) = unsafe { (VERIF_KIND[r][j], VERIF_OFF[r][j], VERIF_GEN[r][j], VERIF_CI[r][j]) };
            if kind == 1 {
                table.entries.insert(obj_num, XRefEntry { offset: off, generation, in_use: true });
            } else if kind == 2 {
                table.entries.insert(obj_num, XRefEntry { offset: off, generation, in_use: false });
            } else if kind == 3 {
                table.extended_entries.insert(obj_num, XRefEntryExt { basic: XRefEntry { offset: 0, generation: 0, in_use: true }, compressed_info: Some(ci) });
                table.entries.insert(obj_num, XRefEntry { offset: 0, generation: 0, in_use: true });
            }
            j += 1;
        }
        let mut trailer = super::objects::PdfDictionary::new();
        let prev = unsafe { VERIF_PREV[r] };
        if prev < 3 {
            trailer.set_int_slot(0, "Prev", true, VERIF_OFFS[prev as usize] as i64);
        }
        table.trailer = Some(trailer);
        Ok(table)
    }
}

/// in-memory "file" with nothing in it: only seek/stream_position are ever used by the merge loop
pub struct VerifNullFile { pub pos: u64 }
impl Read for VerifNullFile { fn read(&mut self, _b: &mut [u8]) -> std::io::Result<usize> { Ok(0) } }
impl Seek for VerifNullFile {
    fn seek(&mut self, p: SeekFrom) -> std::io::Result<u64> {
        match p { SeekFrom::Start(o) => { self.pos = o; } SeekFrom::Current(d) => { self.pos = (self.pos as i64 + d) as u64; } SeekFrom::End(d) => { self.pos = d as u64; } }
        Ok(self.pos)
    }
}
