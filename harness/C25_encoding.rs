// C25 — single-byte text encodings vs. ISO 32000-1 Annex D.
// Child module of the re-rooted text/encoding.rs: `super::*` is the library's own code.
//
// Quantifiers are complete: `b: u8` ranges over all 256 bytes, `c: char` over all
// 1 112 064 Unicode scalar values.  No loop depends on input, so no unwinding bound
// limits the claim except the fixed 1-character string walks (unwind 6 covers a
// 4-byte UTF-8 sequence + terminator).

use crate::spec::annex_d as tbl;
use crate::verif_known as known;

fn table_ok(table: &[u32; 256], alt: Option<u32>, optional: bool, b: u8, got: char) -> bool {
    let want = table[b as usize];
    if want == 0 || optional {
        return true; // code not assigned by Annex D: no constraint
    }
    got as u32 == want || alt == Some(got as u32)
}

/// Runs `f` on the 1-character string of `c`, for characters whose UTF-8 width is W
/// (others are assumed away: one obligation per width, so that the library sees a
/// `&str` of *concrete* length -- symbolic-length strings make every downstream copy
/// a symbolic-size memmove).
fn with_char_str<const W: usize, R>(c: char, f: impl Fn(&str) -> R) -> R {
    kani::assume(c.len_utf8() == W);
    let mut buf = [0u8; 4];
    c.encode_utf8(&mut buf);
    f(unsafe { std::str::from_utf8_unchecked(&buf[..W]) })
}

fn single_char(s: &str) -> Option<char> {
    let mut it = s.chars();
    let c = it.next()?;
    if it.next().is_some() {
        return None;
    }
    Some(c)
}

// @ob id=winansi_decode_table known="b: u8" unwind=6 tier=quick timeout=300 bound="all 256 byte values; winansi_decode_char and TextEncoding::WinAnsiEncoding.decode on 1-byte input"
fn winansi_decode_table<const KF: usize>() {
    let b: u8 = kani::any();
    kani::assume(known::winansi_decode_table::<KF>(b));
    let got = winansi_decode_char(b);
    assert!(table_ok(&tbl::WINANSI, tbl::winansi_alt(b), false, b, got), "winansi_decode_char(b) differs from Annex D");
    if tbl::WINANSI[b as usize] != 0 {
        let s = TextEncoding::WinAnsiEncoding.decode(&[b]);
        let got2 = single_char(&s);
        assert!(got2.is_some(), "decode of one byte is not one char");
        assert!(table_ok(&tbl::WINANSI, tbl::winansi_alt(b), false, b, got2.unwrap()), "TextEncoding::WinAnsi.decode differs from Annex D");
    }
    kani::cover!(b == 0x80, "euro reached");
    kani::cover!(true, "end reached");
}

// @ob id=winansi_encode_table known="c: char" tier=quick timeout=300 bound="all Unicode scalar values; winansi_encode_char"
fn winansi_encode_table<const KF: usize>() {
    let c: char = kani::any();
    kani::assume(known::winansi_encode_table::<KF>(c));
    let got = winansi_encode_char(c);
    match got {
        Some(b) => {
            let want = tbl::WINANSI[b as usize];
            // an assigned code must carry exactly that character; an unassigned code may
            // only be produced for the identical control code point (C0 / DEL pass-through)
            if want != 0 {
                assert!(want == c as u32 || tbl::winansi_alt(b) == Some(c as u32), "encode maps c to a byte whose Annex D character differs");
            } else {
                assert!(c as u32 == b as u32, "encode maps c to an unassigned code");
            }
        }
        None => {
            // not encodable => not in the repertoire
            assert!(tbl::winansi_inv(c as u32).is_none(), "character of the WinAnsi repertoire is rejected");
        }
    }
    kani::cover!(c == '\u{20AC}' && got == Some(0x80), "euro encodes to 0x80");
    kani::cover!(got.is_none(), "rejection reached");
    kani::cover!(true, "end reached");
}

// @ob id=winansi_inverse known="b: u8" tier=quick timeout=300 bound="all 256 byte values: encode(decode(b)) == b on assigned codes"
fn winansi_inverse<const KF: usize>() {
    let b: u8 = kani::any();
    kani::assume(tbl::WINANSI[b as usize] != 0);
    kani::assume(known::winansi_inverse::<KF>(b));
    let c = winansi_decode_char(b);
    assert!(winansi_encode_char(c) == Some(b), "decode then encode is not the identity on an assigned code");
    kani::cover!(b == 0x9F, "0x9F reached");
    kani::cover!(true, "end reached");
}

// @ob id=winansi_strict_lossy_w1 kfgroup=winansi_strict_lossy known="c: char" unwind=3 tier=quick timeout=900 bound="all Unicode scalar values as 1-character strings of UTF-8 width 1; encode_strict and encode (lossy)"
fn winansi_strict_lossy_w1<const KF: usize>() { winansi_strict_lossy::<KF, 1>() }
// @ob id=winansi_strict_lossy_w2 kfgroup=winansi_strict_lossy known="c: char" unwind=3 mem=24 tier=quick timeout=900 bound="all Unicode scalar values as 1-character strings of UTF-8 width 2; encode_strict and encode (lossy)"
fn winansi_strict_lossy_w2<const KF: usize>() { winansi_strict_lossy::<KF, 2>() }
// @ob id=winansi_strict_lossy_w3 kfgroup=winansi_strict_lossy known="c: char" unwind=3 mem=24 tier=thorough timeout=3000 bound="all Unicode scalar values as 1-character strings of UTF-8 width 3; encode_strict and encode (lossy)"
fn winansi_strict_lossy_w3<const KF: usize>() { winansi_strict_lossy::<KF, 3>() }
// @ob id=winansi_strict_lossy_w4 kfgroup=winansi_strict_lossy known="c: char" unwind=3 mem=24 tier=thorough timeout=3000 bound="all Unicode scalar values as 1-character strings of UTF-8 width 4; encode_strict and encode (lossy)"
fn winansi_strict_lossy_w4<const KF: usize>() { winansi_strict_lossy::<KF, 4>() }
fn winansi_strict_lossy<const KF: usize, const W: usize>() {
    let c: char = kani::any();
    kani::assume(known::winansi_strict_lossy::<KF>(c));
    let (strict, lossy) = with_char_str::<W, _>(c, |s| (TextEncoding::WinAnsiEncoding.encode_strict(s), TextEncoding::WinAnsiEncoding.encode(s)));
    match winansi_encode_char(c) {
        Some(b) => {
            assert!(matches!(&strict, Ok(v) if v.len() == 1 && v[0] == b), "encode_strict disagrees with the table function");
            assert!(lossy.len() == 1 && lossy[0] == b, "lossy encode disagrees with the table function");
        }
        None => {
            assert!(matches!(&strict, Err(e) if *e == c), "unencodable character is not reported by encode_strict");
            // lossy path: the only admissible silent replacement is U+003F itself
            assert!(lossy.len() == 1 && lossy[0] == b'?', "lossy encode replaces an unencodable character by something other than '?'");
        }
    }
    kani::cover!(W < 2 || strict.is_err(), "strict error reached");
    kani::cover!(W == 4 || strict.is_ok(), "strict ok reached");
    kani::cover!(true, "end reached");
}

// @ob id=macroman_decode_table known="b: u8" unwind=6 tier=quick timeout=300 bound="all 256 byte values; TextEncoding::MacRomanEncoding.decode on 1-byte input"
fn macroman_decode_table<const KF: usize>() {
    let b: u8 = kani::any();
    kani::assume(known::macroman_decode_table::<KF>(b));
    let s = TextEncoding::MacRomanEncoding.decode(&[b]);
    let got = single_char(&s);
    assert!(got.is_some(), "decode of one byte is not one char");
    assert!(table_ok(&tbl::MACROMAN, tbl::macroman_alt(b), tbl::macroman_optional(b), b, got.unwrap()), "MacRoman decode differs from Annex D");
    kani::cover!(b == 0xFF, "0xFF reached");
    kani::cover!(true, "end reached");
}

// @ob id=macroman_encode_table known="c: char" tier=quick timeout=300 bound="all Unicode scalar values; macroman_encode_char"
fn macroman_encode_table<const KF: usize>() {
    let c: char = kani::any();
    kani::assume(known::macroman_encode_table::<KF>(c));
    let got = macroman_encode_char(c);
    match got {
        Some(b) => {
            let want = tbl::MACROMAN[b as usize];
            if want != 0 {
                assert!(want == c as u32 || tbl::macroman_alt(b) == Some(c as u32), "encode maps c to a byte whose Annex D character differs");
            } else {
                assert!(c as u32 == b as u32, "encode maps c to an unassigned code");
            }
        }
        None => {
            // a character of the (non-optional) Annex D repertoire must be encodable
            // (codes whose reading is contested -- Annex D `currency` vs Mac OS `Euro` at 0xDB,
            // the symbols Annex D leaves out -- carry no obligation)
            match tbl::macroman_inv(c as u32) {
                Some(b) => assert!(tbl::macroman_optional(b) || tbl::macroman_alt(b).is_some(), "character of the MacRoman repertoire is rejected"),
                None => {}
            }
        }
    }
    kani::cover!(got == Some(0x80), "0x80 produced");
    kani::cover!(got.is_none(), "rejection reached");
    kani::cover!(true, "end reached");
}

// @ob id=macroman_inverse known="b: u8" unwind=6 tier=quick timeout=600 bound="all 256 byte values: encode(decode(b)) == b (library decode as the repertoire)"
fn macroman_inverse<const KF: usize>() {
    let b: u8 = kani::any();
    kani::assume(known::macroman_inverse::<KF>(b));
    let s = TextEncoding::MacRomanEncoding.decode(&[b]);
    let c = single_char(&s).unwrap();
    assert!(macroman_encode_char(c) == Some(b), "decode then encode is not the identity");
    kani::cover!(b == 0xAF, "0xAF reached");
    kani::cover!(true, "end reached");
}

// @ob id=macroman_strict_lossy_w1 kfgroup=macroman_strict_lossy known="c: char" unwind=3 mem=24 tier=quick timeout=900 bound="all Unicode scalar values as 1-character strings of UTF-8 width 1; encode_strict and encode (lossy)"
fn macroman_strict_lossy_w1<const KF: usize>() { macroman_strict_lossy::<KF, 1>() }
// (widths 2-4 of this wrapper obligation ran out of memory at the 10 GB cap after ~20 min each: the lossy
// `encode` has one Vec::push per table arm (210 call sites); the table function itself is decided over ALL
// characters by macroman_encode_table, so only UTF-8 width 1 is kept for the string wrappers)
fn macroman_strict_lossy<const KF: usize, const W: usize>() {
    let c: char = kani::any();
    kani::assume(known::macroman_strict_lossy::<KF>(c));
    let (strict, lossy) = with_char_str::<W, _>(c, |s| (TextEncoding::MacRomanEncoding.encode_strict(s), TextEncoding::MacRomanEncoding.encode(s)));
    match macroman_encode_char(c) {
        Some(b) => {
            assert!(matches!(&strict, Ok(v) if v.len() == 1 && v[0] == b), "encode_strict disagrees with the table function");
            assert!(lossy.len() == 1 && lossy[0] == b, "lossy encode disagrees with the table function");
        }
        None => {
            assert!(matches!(&strict, Err(e) if *e == c), "unencodable character is not reported by encode_strict");
            assert!(lossy.len() == 1 && lossy[0] == b'?', "lossy encode replaces an unencodable character by something other than '?'");
        }
    }
    kani::cover!(W < 2 || strict.is_err(), "strict error reached");
    kani::cover!(W == 4 || strict.is_ok(), "strict ok reached");
    kani::cover!(true, "end reached");
}

// @ob id=standard_decode_table known="b: u8" unwind=6 tier=quick timeout=600 bound="all 256 byte values; TextEncoding::StandardEncoding.decode on 1-byte input"
fn standard_decode_table<const KF: usize>() {
    let b: u8 = kani::any();
    kani::assume(tbl::STANDARD[b as usize] != 0);
    kani::assume(known::standard_decode_table::<KF>(b));
    let s = TextEncoding::StandardEncoding.decode(&[b]);
    let got = single_char(&s);
    assert!(got.is_some() && got.unwrap() as u32 == tbl::STANDARD[b as usize], "StandardEncoding decode differs from Annex D");
    kani::cover!(b == b'A', "ASCII letter reached");
    kani::cover!(true, "end reached");
}

// @ob id=pdfdoc_decode_table known="b: u8" unwind=6 tier=quick timeout=600 bound="all 256 byte values; TextEncoding::PdfDocEncoding.decode on 1-byte input"
fn pdfdoc_decode_table<const KF: usize>() {
    let b: u8 = kani::any();
    kani::assume(tbl::PDFDOC[b as usize] != 0);
    kani::assume(known::pdfdoc_decode_table::<KF>(b));
    let s = TextEncoding::PdfDocEncoding.decode(&[b]);
    let got = single_char(&s);
    assert!(got.is_some() && got.unwrap() as u32 == tbl::PDFDOC[b as usize], "PdfDocEncoding decode differs from Annex D");
    kani::cover!(b == b'A', "ASCII letter reached");
    kani::cover!(true, "end reached");
}

// @ob id=std_doc_strict_w1 unwind=3 kfgroup=std_doc_strict known="c: char, pdfdoc: bool" mem=24 tier=quick timeout=900 bound="all Unicode scalar values as 1-character strings of UTF-8 width 1; encode_strict / encode for Standard and PDFDoc vs Annex D"
fn std_doc_strict_w1<const KF: usize>() { std_doc_strict::<KF, 1>() }
fn std_doc_strict<const KF: usize, const W: usize>() {
    let c: char = kani::any();
    let pdfdoc: bool = kani::any();
    kani::assume(known::std_doc_strict::<KF>(c, pdfdoc));
    let enc = if pdfdoc { TextEncoding::PdfDocEncoding } else { TextEncoding::StandardEncoding };
    let table = if pdfdoc { &tbl::PDFDOC } else { &tbl::STANDARD };
    let inv = if pdfdoc { tbl::pdfdoc_inv(c as u32) } else { tbl::standard_inv(c as u32) };
    let (strict, lossy) = with_char_str::<W, _>(c, |s| (enc.encode_strict(s), enc.encode(s)));
    match &strict {
        Ok(v) => {
            assert!(v.len() == 1, "one character did not encode to one byte");
            let want = table[v[0] as usize];
            assert!(want == c as u32 || (want == 0 && v[0] as u32 == c as u32), "encode_strict emits a byte whose Annex D character differs");
        }
        Err(e) => {
            assert!(*e == c, "wrong character reported");
            assert!(inv.is_none(), "character of the encoding's Annex D repertoire is rejected by encode_strict");
        }
    }
    // lossy path: either the table byte of c, or (unencodable) the single byte '?'
    let ok_lossy = lossy.len() == 1
        && (table[lossy[0] as usize] == c as u32
            || (table[lossy[0] as usize] == 0 && lossy[0] as u32 == c as u32)
            || (lossy[0] == b'?' && inv.is_none()));
    assert!(ok_lossy, "lossy encode emits bytes that decode (per Annex D) to different characters");
    kani::cover!(strict.is_ok(), "strict ok reached");
    kani::cover!(true, "end reached");
}
