// C23 — password padding and object-key input assembly (child module of the sliced
// encryption/standard_security.rs).  MD5 is replaced by an input recorder (verif_shims::md5).
const SPEC_PAD: [u8; 32] = [
    0x28, 0xBF, 0x4E, 0x5E, 0x4E, 0x75, 0x8A, 0x41, 0x64, 0x00, 0x4E, 0x56, 0xFF, 0xFA, 0x01, 0x08,
    0x2E, 0x2E, 0x00, 0xB6, 0xD0, 0x68, 0x3E, 0x80, 0x2F, 0x0C, 0xA9, 0xFE, 0x64, 0x53, 0x69, 0x7A,
];

// Algorithm 2 step (a): first 32 bytes of the password, padded with the first 32-len bytes of the padding string
fn pad_n<const N: usize>() {
    let pw: [u8; N] = kani::any();
    let mut i = 0;
    while i < N { kani::assume(pw[i] < 0x80); i += 1; }
    let s = unsafe { std::str::from_utf8_unchecked(&pw) };
    let out = StandardSecurityHandler::pad_password(s);
    let k = if N < 32 { N } else { 32 };
    let mut j = 0;
    while j < 32 {
        if j < k { assert!(out[j] == pw[j], "padded password does not start with the password bytes"); }
        else { assert!(out[j] == SPEC_PAD[j - k], "padding bytes differ from the ISO 32000-1 padding string"); }
        j += 1;
    }
    kani::cover!(true, "end reached");
}
// @ob id=pad_0 unwind=34 tier=quick timeout=300 bound="empty password"
fn pad_0<const KF: usize>() { pad_n::<0>() }
// @ob id=pad_5 unwind=34 tier=quick timeout=300 bound="every 5-byte ASCII password"
fn pad_5<const KF: usize>() { pad_n::<5>() }
// @ob id=pad_31 unwind=34 tier=quick timeout=300 bound="every 31-byte ASCII password"
fn pad_31<const KF: usize>() { pad_n::<31>() }
// @ob id=pad_32 unwind=34 tier=quick timeout=300 bound="every 32-byte ASCII password"
fn pad_32<const KF: usize>() { pad_n::<32>() }
// @ob id=pad_34 unwind=36 tier=quick timeout=300 bound="every 34-byte ASCII password (truncated to 32)"
fn pad_34<const KF: usize>() { pad_n::<34>() }

// Algorithm 1: hash input = file key || low 3 bytes of the object number (LE) || low 2 bytes of the generation (LE) [|| "sAlT"]
fn objkey<const KL: usize>(aes: bool) {
    let key: [u8; KL] = kani::any();
    let num: u32 = kani::any();
    let gen: u16 = kani::any();
    let h = if KL == 5 { StandardSecurityHandler::rc4_40bit() } else { StandardSecurityHandler::rc4_128bit() };
    let mut kv = Vec::new();
    let mut i = 0;
    while i < KL { kv.push(key[i]); i += 1; }
    let ek = EncryptionKey { key: kv };
    let id = ObjectId::new(num, gen);
    let out = if aes { h.compute_r4_aes_object_key(&ek, &id) } else { h.compute_object_key(&ek, &id) };
    let (rec, n) = unsafe { (crate::verif_shims::md5::LAST, crate::verif_shims::md5::LAST_LEN) };
    assert!(n == KL + 5 + if aes { 4 } else { 0 }, "hash input has the wrong length");
    let mut j = 0;
    while j < KL { assert!(rec[j] == key[j], "hash input does not start with the file key"); j += 1; }
    assert!(rec[KL] == num as u8 && rec[KL + 1] == (num >> 8) as u8 && rec[KL + 2] == (num >> 16) as u8, "object number bytes (low 3, little-endian) are wrong");
    assert!(rec[KL + 3] == gen as u8 && rec[KL + 4] == (gen >> 8) as u8, "generation bytes (low 2, little-endian) are wrong");
    if aes { assert!(rec[KL + 5] == b's' && rec[KL + 6] == b'A' && rec[KL + 7] == b'l' && rec[KL + 8] == b'T', "AES salt is not 'sAlT'"); }
    assert!(out.len() == if KL + 5 < 16 { KL + 5 } else { 16 }, "object key length is not min(n + 5, 16)");
    std::mem::forget(ek);
    kani::cover!(num >= 65536 && gen > 255, "large object number and generation reached");
    kani::cover!(true, "end reached");
}
// @ob id=objkey_rc4_40 unwind=24 mem=20 tier=quick timeout=600 bound="compute_object_key: every 5-byte file key, every object number (u32) and generation (u16)"
fn objkey_rc4_40<const KF: usize>() { objkey::<5>(false) }
// @ob id=objkey_rc4_128 unwind=24 mem=20 tier=quick timeout=600 bound="compute_object_key: every 16-byte file key, every object number and generation"
fn objkey_rc4_128<const KF: usize>() { objkey::<16>(false) }
// @ob id=objkey_aes_128 unwind=28 mem=20 tier=quick timeout=600 bound="compute_r4_aes_object_key: every 16-byte file key, every object number and generation"
fn objkey_aes_128<const KF: usize>() { objkey::<16>(true) }
