// (error values are mem::forget-ten: OperationError's drop glue reaches io::Error, whose drop is a
// known CBMC blow-up and irrelevant to the selection being checked)
// C16 — PageRange::get_indices (child module of the sliced operations/mod.rs).
fn is_seq(v: &[usize], from: usize, n: usize) -> bool {
    if v.len() != n {
        return false;
    }
    let mut i = 0;
    while i < n {
        if v[i] != from + i {
            return false;
        }
        i += 1;
    }
    true
}

fn indices<const T: usize, const W: u8>() {
    let which: u8 = W;
    let a: usize = kani::any();
    let b: usize = kani::any();
    let c: usize = kani::any();
    match which {
        0 => {
            let r = PageRange::All.get_indices(T).unwrap();
            assert!(is_seq(&r, 0, T), "All does not select every page in order");
        }
        1 => match PageRange::Single(a).get_indices(T) {
            Ok(v) => assert!(a < T && v.len() == 1 && v[0] == a, "Single selects a different page"),
            Err(e) => { assert!(a >= T, "an existing page is rejected"); std::mem::forget(e); }
        },
        2 => match PageRange::Range(a, b).get_indices(T) {
            // (operands are arbitrary usize when either is out of range; in-range operands are
            // < T by definition, which keeps the collected Vec's size small for the solver)
            Ok(v) => {
                assert!(a < T && b < T, "a range reaching past the last page is accepted");
                if a <= b {
                    assert!(is_seq(&v, a, b - a + 1), "Range does not select start..=end in order");
                } else {
                    assert!(v.is_empty(), "inverted range selects pages");
                }
            }
            Err(e) => { assert!(a >= T || b >= T, "a valid range is rejected"); std::mem::forget(e); }
        },
        _ => {
            let list = vec![a, b, c];
            match PageRange::List(list).get_indices(T) {
                Ok(v) => assert!(a < T && b < T && c < T && v.len() == 3 && v[0] == a && v[1] == b && v[2] == c, "List is not returned as requested (order and duplicates preserved)"),
                Err(e) => { assert!(a >= T || b >= T || c >= T, "a valid list is rejected"); std::mem::forget(e); }
            }
        }
    }
    kani::cover!(which != 3 || (a == b && a < T), "list with an adjacent duplicate reached");
    kani::cover!(which != 2 || (b == T - 1 && a == 0), "range ending on the last page reached");
    kani::cover!(true, "end reached");
}

// @ob id=indices_all_t1 unwind=4 tier=quick timeout=600 mem=16 bound="document of 1 page(s); PageRange::All with arbitrary usize operands"
fn indices_all_t1<const KF: usize>() { indices::<1, 0>() }
// @ob id=indices_single_t1 unwind=4 tier=quick timeout=600 mem=16 bound="document of 1 page(s); PageRange::Single(any) with arbitrary usize operands"
fn indices_single_t1<const KF: usize>() { indices::<1, 1>() }
// @ob id=indices_range_t1 unwind=4 tier=quick timeout=600 mem=24 bound="document of 1 page(s); PageRange::Range(any, any) with arbitrary usize operands"
fn indices_range_t1<const KF: usize>() { indices::<1, 2>() }
// @ob id=indices_list_t1 unwind=4 tier=quick timeout=600 mem=16 bound="document of 1 page(s); PageRange::List of 3 arbitrary indices with arbitrary usize operands"
fn indices_list_t1<const KF: usize>() { indices::<1, 3>() }
// @ob id=indices_all_t3 unwind=6 tier=quick timeout=600 mem=16 bound="document of 3 page(s); PageRange::All with arbitrary usize operands"
fn indices_all_t3<const KF: usize>() { indices::<3, 0>() }
// @ob id=indices_single_t3 unwind=6 tier=quick timeout=600 mem=16 bound="document of 3 page(s); PageRange::Single(any) with arbitrary usize operands"
fn indices_single_t3<const KF: usize>() { indices::<3, 1>() }
// @ob id=indices_range_t3 unwind=6 tier=quick timeout=600 mem=24 bound="document of 3 page(s); PageRange::Range(any, any) with arbitrary usize operands"
fn indices_range_t3<const KF: usize>() { indices::<3, 2>() }
// @ob id=indices_list_t3 unwind=6 tier=quick timeout=600 mem=16 bound="document of 3 page(s); PageRange::List of 3 arbitrary indices with arbitrary usize operands"
fn indices_list_t3<const KF: usize>() { indices::<3, 3>() }
// @ob id=indices_all_t4 unwind=7 tier=thorough timeout=600 mem=16 bound="document of 4 page(s); PageRange::All with arbitrary usize operands"
fn indices_all_t4<const KF: usize>() { indices::<4, 0>() }
// @ob id=indices_single_t4 unwind=7 tier=thorough timeout=600 mem=16 bound="document of 4 page(s); PageRange::Single(any) with arbitrary usize operands"
fn indices_single_t4<const KF: usize>() { indices::<4, 1>() }
// @ob id=indices_range_t4 unwind=7 tier=thorough timeout=600 mem=24 bound="document of 4 page(s); PageRange::Range(any, any) with arbitrary usize operands"
fn indices_range_t4<const KF: usize>() { indices::<4, 2>() }
// @ob id=indices_list_t4 unwind=7 tier=thorough timeout=600 mem=16 bound="document of 4 page(s); PageRange::List of 3 arbitrary indices with arbitrary usize operands"
fn indices_list_t4<const KF: usize>() { indices::<4, 3>() }
