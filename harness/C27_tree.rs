// C27 — range lookup of PageLabelTree::get_label (child module of page_label_tree.rs).
// std BTreeMap is environment: rebound to the sorted-array model (ascending iteration).
use crate::page_labels::PageLabelStyle;

// @ob id=range_lookup unwind=8 stubs=string_insert,fmt_upper_letters mem=24 tier=quick timeout=900 bound="up to 3 ranges with arbitrary u32 start pages (distinct or equal: later add_range replaces), arbitrary page index with offset <= 25; letters style, start value 1..=3 (ranges told apart by start value)"
fn range_lookup<const KF: usize>() {
    let k: [u32; 3] = kani::any();
    let st: [u32; 3] = kani::any();
    // every range uses the same concrete style (a symbolic style would make symex walk all
    // arms of PageLabelStyle::format); ranges are told apart by their start values
    let nr: usize = kani::any();
    kani::assume(nr <= 3);
    let mut tree = PageLabelTree::new();
    let mut i = 0;
    while i < nr {
        kani::assume(st[i] >= 1 && st[i] <= 3);
        tree.add_range(k[i], PageLabel::letters_uppercase().starting_at(st[i]));
        i += 1;
    }
    let page: u32 = kani::any();
    // reference: the governing range is the one with the greatest start <= page; among equal
    // starts the one added last
    let mut best: Option<usize> = None;
    let mut j = 0;
    while j < nr {
        if k[j] <= page {
            match best {
                None => best = Some(j),
                Some(b) => {
                    if k[j] >= k[b] {
                        best = Some(j);
                    }
                }
            }
        }
        j += 1;
    }
    match best {
        None => {
            assert!(tree.get_label(page).is_none(), "a label is reported for a page before the first range");
        }
        Some(b) => {
            let off = page - k[b];
            kani::assume(off <= 20);
            let got = tree.get_label(page);
            assert!(got.is_some(), "no label for a page inside a range");
            let s = got.unwrap();
            assert!(s.len() == 1 && s.as_bytes()[0] == b'A' + (st[b] + off - 1) as u8, "label does not come from the governing range / offset");
        }
    }
    kani::cover!(nr == 3 && best == Some(1), "middle range governs");
    kani::cover!(nr == 3 && k[0] == k[2] && best == Some(2), "replacement of an equal start reached");
    kani::cover!(best.is_none() && nr > 0, "page before first range reached");
    kani::cover!(true, "end reached");
}

