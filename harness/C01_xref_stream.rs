// C01 — cross-reference stream field decoding never panics (child module of parser/xref_stream.rs).
use crate::verif_known as known;

// @ob id=read_field_any tier=quick unwind=14 timeout=600 bound="read_field on every slice of 0..=12 arbitrary bytes: value = big-endian of the last 8 bytes, no panic"
fn read_field_any<const KF: usize>() {
    let buf: [u8; 12] = kani::any();
    let n: usize = kani::any();
    kani::assume(n <= 12);
    let v = read_field(&buf[..n]);
    // reference: fold over the last min(n,8) bytes
    let mut want = 0u64;
    let mut i = if n > 8 { n - 8 } else { 0 };
    while i < n {
        want = (want << 8) | buf[i] as u64;
        i += 1;
    }
    assert!(v == want, "read_field is not the big-endian value of the field");
    kani::cover!(n == 9, "9-byte field reached");
    kani::cover!(n == 0, "empty field reached");
    kani::cover!(true, "end reached");
}

// @ob id=to_entries known="w0: usize, w1: usize, w2: usize, first: u32" tier=quick unwind=8 stubs=fmt,vec timeout=1500 mem=28 bound="XRefStream::to_xref_entries: /W = three arbitrary usize, one /Index pair (first, count) with arbitrary u32 each, 6 arbitrary data bytes: value or error, object numbers first+i, never a panic"
fn to_entries<const KF: usize>() {
    let w: [usize; 3] = kani::any();
    let first: u32 = kani::any();
    let count: u32 = kani::any();
    kani::assume(known::to_entries::<KF>(w[0], w[1], w[2], first));
    let data: [u8; 6] = kani::any();
    let mut widths = Vec::new();
    widths.push(w[0]); widths.push(w[1]); widths.push(w[2]);
    let mut index = Vec::new();
    index.push((first, count));
    let mut dv = Vec::new();
    let mut i = 0;
    while i < 6 { dv.push(data[i]); i += 1; }
    let xs = XRefStream { dict: crate::parser::objects::PdfDictionary::new(), data: dv, widths, index };
    let r = xs.to_xref_entries();
    if let Ok(v) = &r {
        assert!(v.len() as u64 == count as u64, "number of entries differs from the /Index count");
        if v.len() > 0 {
            assert!(v[0].0 == first, "first entry is not numbered /Index[0]");
        }
    }
    kani::cover!(r.is_ok() && count == 2, "two entries decoded");
    kani::cover!(r.is_err(), "error reached");
    std::mem::forget(r);
    std::mem::forget(xs);
    kani::cover!(true, "end reached");
}
