// C03 — cross-reference STREAM entries written by XRefStreamWriter are read back, by the library's
// own xref-stream decoder, as the same entries (child module of the sliced writer/xref_stream_writer.rs).
// "every cross-reference entry points at the exact byte where its object begins" for the stream form
// reduces to: the (type, field2, field3) triple survives encode -> decode for the widths the writer chose.
use crate::verif_known as known;
use crate::parser::xref_stream::{XRefEntry as E, XRefStream};

fn any_entry(w: &mut XRefStreamWriter) -> (u8, u64, u64) {
    let kind: u8 = kani::any();
    kani::assume(kind < 3);
    let a: u64 = kani::any();
    let b: u32 = kani::any();
    match kind {
        0 => { let nf = a as u32; let g = b as u16; w.add_free_entry(nf, g); (0, nf as u64, g as u64) }
        1 => { let g = b as u16; w.add_in_use_entry(a, g); (1, a, g as u64) }
        _ => { let s = a as u32; w.add_compressed_entry(s, b); (2, s as u64, b as u64) }
    }
}
fn matches_entry(e: &E, want: (u8, u64, u64)) -> bool {
    match e {
        E::Free { next_free_object, generation } => want.0 == 0 && *next_free_object as u64 == want.1 && *generation as u64 == want.2,
        E::InUse { offset, generation } => want.0 == 1 && *offset == want.1 && *generation as u64 == want.2,
        E::Compressed { stream_object_number, index_within_stream } => want.0 == 2 && *stream_object_number as u64 == want.1 && *index_within_stream as u64 == want.2,
    }
}

fn roundtrip<const KF: usize, const N: usize>() {
    let mut w = XRefStreamWriter::new(crate::objects::ObjectId::new(9, 0));
    let e0 = any_entry(&mut w);
    let e1 = if N == 2 { any_entry(&mut w) } else { (0, 0, 0) };
    kani::assume(known::xref_stream_roundtrip::<KF>(e0.0, e0.1, e1.0, e1.1));
    let data = w.encode_entries();
    let mut widths = Vec::new();
    widths.push(w.widths[0]); widths.push(w.widths[1]); widths.push(w.widths[2]);
    let mut index = Vec::new();
    index.push((0u32, N as u32));
    let xs = XRefStream { dict: crate::parser::objects::PdfDictionary::new(), data, widths, index };
    match xs.to_xref_entries() {
        Ok(v) => {
            assert!(v.len() == N && v[0].0 == 0, "decoded entry count / numbering differs");
            assert!(matches_entry(&v[0].1, e0), "first cross-reference entry reads back differently from what was written");
            if N == 2 { assert!(v[1].0 == 1 && matches_entry(&v[1].1, e1), "second cross-reference entry reads back differently from what was written"); }
        }
        Err(e) => { std::mem::forget(e); assert!(false, "the library's decoder rejects the writer's xref stream data"); }
    }
    std::mem::forget(xs);
    kani::cover!(e0.0 == 1 && e0.1 > 0xFFFFFF, "offset beyond 3 bytes reached");
    kani::cover!(e0.0 == 2, "compressed entry reached");
    kani::cover!(e0.0 == 0 && e0.1 > 0xFFFFFF, "next-free number beyond 3 bytes reached");
    kani::cover!(true, "end reached");
}
// @ob id=xref_stream_roundtrip_1 kfgroup=xref_stream_roundtrip known="kind0: u8, f0: u64, kind1: u8, f1: u64" unwind=12 stubs=fmt,vec tier=quick timeout=1500 mem=24 bound="one entry: free (any next-free u32, any generation) / in use (ANY u64 offset, any generation) / compressed (any stream number, any index): widths chosen by the writer, encode_entries, then XRefStream::to_xref_entries with /Index [0 1]"
fn xref_stream_roundtrip_1<const KF: usize>() { roundtrip::<KF, 1>() }
// @ob id=xref_stream_roundtrip_2 kfgroup=xref_stream_roundtrip known="kind0: u8, f0: u64, kind1: u8, f1: u64" unwind=12 stubs=fmt,vec tier=thorough timeout=3000 mem=30 bound="two independent arbitrary entries (the second may widen the fields after the first was added), /Index [0 2]"
fn xref_stream_roundtrip_2<const KF: usize>() { roundtrip::<KF, 2>() }

// @ob id=bytes_needed_all tier=quick timeout=300 bound="bytes_needed for every u64: the smallest byte count that represents the value"
fn bytes_needed_all<const KF: usize>() {
    let v: u64 = kani::any();
    let n = XRefStreamWriter::bytes_needed(v);
    assert!(n >= 1 && n <= 8, "byte count outside 1..=8");
    assert!(n == 8 || v < (1u64 << (8 * n)), "value does not fit the reported byte count");
    assert!(n == 1 || v >= (1u64 << (8 * (n - 1))), "reported byte count is not minimal");
    kani::cover!(n == 8, "8 bytes reached");
    kani::cover!(true, "end reached");
}
