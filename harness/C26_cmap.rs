// C26 — CMap range arithmetic and code-space gating (child module of the sliced text/cmap.rs).
// The CMap value is built directly (private fields reachable from the child module); the
// PostScript tokenizer/parser is outside this check.
use crate::verif_known as known;

fn be_val(b: &[u8]) -> u64 {
    let mut v = 0u64;
    let mut i = 0;
    while i < b.len() { v = (v << 8) | b[i] as u64; i += 1; }
    v
}
fn vec_of(b: &[u8]) -> Vec<u8> {
    let mut v = Vec::with_capacity(4);
    let mut i = 0;
    while i < b.len() { v.push(b[i]); i += 1; }
    v
}

/// one bfrange <src_start> <src_end> <dst_start> with L-byte codes and D-byte destinations
fn bfrange<const L: usize, const D: usize>() {
    let s: [u8; L] = kani::any();
    let e: [u8; L] = kani::any();
    let d: [u8; D] = kani::any();
    let code: [u8; L] = kani::any();
    kani::assume(be_val(&s) <= be_val(&e));
    let mut cm = CMap::new();
    cm.cmap_type = CMapType::ToUnicode;
    cm.mappings.push(CMapEntry::Range { src_start: vec_of(&s), src_end: vec_of(&e), dst_start: vec_of(&d) });
    // code space: <00..> <FF..> of the same width
    let lo = [0u8; L];
    let hi = [0xFFu8; L];
    cm.codespace_ranges.push(CodeRange { start: vec_of(&lo), end: vec_of(&hi) });
    let got = cm.map(&code);
    let c = be_val(&code);
    if c >= be_val(&s) && c <= be_val(&e) {
        let want = (be_val(&d) + (c - be_val(&s))) & ((1u64 << (8 * D)) - 1);
        match &got {
            Some(v) => assert!(v.len() == D && be_val(v) == want, "bfrange: mapped value is not dst + (code - start) as big-endian integers with carry"),
            None => assert!(false, "bfrange: a code inside the range is not mapped"),
        }
    } else {
        assert!(got.is_none(), "a code outside every range (and not an Identity CMap) is mapped");
    }
    // a code of another length is outside the code space
    let longer = [code[0], code[0], code[0], code[0], code[0]];
    assert!(!cm.is_valid_code(&longer[..L + 1]), "a code longer than the code space is accepted");
    assert!(cm.is_valid_code(&code), "a code inside the code space is rejected");
    std::mem::forget(cm);
    kani::cover!(got.is_some() && (d[D - 1] as u64 + (c - be_val(&s))) >= 256, "carry into the next byte reached");
    kani::cover!(got.is_none(), "unmapped code reached");
    kani::cover!(true, "end reached");
}
// @ob id=bfrange_l1_d2 unwind=8 tier=quick timeout=900 mem=16 bound="one bfrange with 1-byte codes and 2-byte destinations: every start <= end, destination and looked-up code"
fn bfrange_l1_d2<const KF: usize>() { bfrange::<1, 2>() }
// @ob id=bfrange_l2_d2 unwind=8 tier=quick timeout=1200 mem=16 bound="one bfrange with 2-byte codes and 2-byte destinations: every start <= end, destination and looked-up code (all byte-carry boundaries)"
fn bfrange_l2_d2<const KF: usize>() { bfrange::<2, 2>() }
// @ob id=bfrange_l3_d2 unwind=8 tier=thorough timeout=1800 mem=20 bound="one bfrange with 3-byte codes and 2-byte destinations"
fn bfrange_l3_d2<const KF: usize>() { bfrange::<3, 2>() }

// @ob id=offset_and_increment known="n: usize" unwind=12 tier=quick timeout=600 bound="calculate_offset on codes of 1..=9 bytes (value difference, saturating at 0; no panic) and increment_be on 1..=3 bytes (+1 with carry, overflow reported)"
fn offset_and_increment<const KF: usize>() {
    let a: [u8; 9] = kani::any();
    let b: [u8; 9] = kani::any();
    let n: usize = kani::any();
    kani::assume(n >= 1 && n <= 9);
    kani::assume(known::offset_and_increment::<KF>(n));
    let off = calculate_offset(&a[..n], &b[..n]);
    if n <= 7 {
        let (x, y) = (be_val(&a[..n]), be_val(&b[..n]));
        assert!(off as u64 == if x >= y { x - y } else { 0 }, "calculate_offset is not the (saturating) difference of the big-endian values");
    }
    let mut c: [u8; 3] = kani::any();
    let m: usize = kani::any();
    kani::assume(m >= 1 && m <= 3);
    let before = be_val(&c[..m]);
    let ok = increment_be(&mut c[..m]);
    let max = (1u64 << (8 * m)) - 1;
    if before == max {
        assert!(!ok && be_val(&c[..m]) == 0, "increment past the largest code is not reported as overflow");
    } else {
        assert!(ok && be_val(&c[..m]) == before + 1, "increment_be is not +1 with carry");
    }
    kani::cover!(n == 9, "9-byte code reached");
    kani::cover!(before == 0xFF && m == 2, "carry reached");
    kani::cover!(true, "end reached");
}
