// C26 — CMap range arithmetic and code-space gating (child module of the sliced text/cmap.rs).
// The CMap value is built directly (private fields reachable from the child module); the
// PostScript tokenizer/parser is outside this check.
use crate::verif_known as known;

fn be_val(b: &[u8]) -> u64 {
    let mut v = 0u64;
    let mut i = 0;
    while i < b.len() { v = (v << 8) | b[i] as u64; i += 1; }
    v
}
fn vec_of(b: &[u8]) -> Vec<u8> {
    let mut v = Vec::with_capacity(4);
    let mut i = 0;
    while i < b.len() { v.push(b[i]); i += 1; }
    v
}

/// one bfrange <src_start> <src_end> <dst_start> with L-byte codes and D-byte destinations
fn bfrange<const L: usize, const D: usize>() {
    let s: [u8; L] = kani::any();
    let e: [u8; L] = kani::any();
    let d: [u8; D] = kani::any();
    let code: [u8; L] = kani::any();
    kani::assume(be_val(&s) <= be_val(&e));
    let mut cm = CMap::new();
    cm.cmap_type = CMapType::ToUnicode;
    cm.mappings.push(CMapEntry::Range { src_start: vec_of(&s), src_end: vec_of(&e), dst_start: vec_of(&d) });
    // code space: <00..> <FF..> of the same width
    let lo = [0u8; L];
    let hi = [0xFFu8; L];
    cm.codespace_ranges.push(CodeRange { start: vec_of(&lo), end: vec_of(&hi) });
    let got = cm.map(&code);
    let c = be_val(&code);
    if c >= be_val(&s) && c <= be_val(&e) {
        let want = (be_val(&d) + (c - be_val(&s))) & ((1u64 << (8 * D)) - 1);
        match &got {
            Some(v) => assert!(v.len() == D && be_val(v) == want, "bfrange: mapped value is not dst + (code - start) as big-endian integers with carry"),
            None => assert!(false, "bfrange: a code inside the range is not mapped"),
        }
    } else {
        assert!(got.is_none(), "a code outside every range (and not an Identity CMap) is mapped");
    }
    // a code of another length is outside the code space
    let longer = [code[0], code[0], code[0], code[0], code[0]];
    assert!(!cm.is_valid_code(&longer[..L + 1]), "a code longer than the code space is accepted");
    assert!(cm.is_valid_code(&code), "a code inside the code space is rejected");
    std::mem::forget(cm);
    kani::cover!(got.is_some() && (d[D - 1] as u64 + (c - be_val(&s))) >= 256, "carry into the next byte reached");
    kani::cover!(got.is_none(), "unmapped code reached");
    kani::cover!(true, "end reached");
}
// @ob id=bfrange_l1_d2 unwind=8 tier=quick timeout=900 mem=16 bound="one bfrange with 1-byte codes and 2-byte destinations: every start <= end, destination and looked-up code"
fn bfrange_l1_d2<const KF: usize>() { bfrange::<1, 2>() }
// @ob id=bfrange_l2_d2 unwind=8 tier=quick timeout=1200 mem=16 bound="one bfrange with 2-byte codes and 2-byte destinations: every start <= end, destination and looked-up code (all byte-carry boundaries)"
fn bfrange_l2_d2<const KF: usize>() { bfrange::<2, 2>() }
// @ob id=bfrange_l3_d2 unwind=8 tier=thorough timeout=1800 mem=20 bound="one bfrange with 3-byte codes and 2-byte destinations"
fn bfrange_l3_d2<const KF: usize>() { bfrange::<3, 2>() }

// @ob id=offset_and_increment known="n: usize" unwind=12 tier=quick timeout=600 bound="calculate_offset on codes of 1..=9 bytes (value difference, saturating at 0; no panic) and increment_be on 1..=3 bytes (+1 with carry, overflow reported)"
fn offset_and_increment<const KF: usize>() {
    let a: [u8; 9] = kani::any();
    let b: [u8; 9] = kani::any();
    let n: usize = kani::any();
    kani::assume(n >= 1 && n <= 9);
    kani::assume(known::offset_and_increment::<KF>(n));
    let off = calculate_offset(&a[..n], &b[..n]);
    if n <= 7 {
        let (x, y) = (be_val(&a[..n]), be_val(&b[..n]));
        assert!(off as u64 == if x >= y { x - y } else { 0 }, "calculate_offset is not the (saturating) difference of the big-endian values");
    }
    let mut c: [u8; 3] = kani::any();
    let m: usize = kani::any();
    kani::assume(m >= 1 && m <= 3);
    let before = be_val(&c[..m]);
    let ok = increment_be(&mut c[..m]);
    let max = (1u64 << (8 * m)) - 1;
    if before == max {
        assert!(!ok && be_val(&c[..m]) == 0, "increment past the largest code is not reported as overflow");
    } else {
        assert!(ok && be_val(&c[..m]) == before + 1, "increment_be is not +1 with carry");
    }
    kani::cover!(n == 9, "9-byte code reached");
    kani::cover!(before == 0xFF && m == 2, "carry reached");
    kani::cover!(true, "end reached");
}

/// code-space gating with ARBITRARY bounds: a code whose every byte lies inside the corresponding
/// byte interval of the declared range is inside the code space (both the per-byte reading of
/// Adobe TN 5014 and the numeric reading agree), a code numerically outside [start, end] or of
/// another length is outside it.  Codes numerically inside but outside the per-byte rectangle are
/// contested between the two readings and carry no obligation.
fn codespace<const L: usize>() {
    let s: [u8; L] = kani::any();
    let e: [u8; L] = kani::any();
    let code: [u8; L] = kani::any();
    let mut i = 0;
    let mut rect_in = true;
    while i < L { kani::assume(s[i] <= e[i]); if code[i] < s[i] || code[i] > e[i] { rect_in = false; } i += 1; }
    let mut cm = CMap::new();
    cm.cmap_type = CMapType::ToUnicode;
    cm.codespace_ranges.push(CodeRange { start: vec_of(&s), end: vec_of(&e) });
    let c = be_val(&code);
    let num_in = c >= be_val(&s) && c <= be_val(&e);
    let valid = cm.is_valid_code(&code);
    if rect_in { assert!(valid, "a code inside the declared code-space range is rejected"); }
    if !num_in { assert!(!valid, "a code outside the declared code-space range is accepted"); }
    let longer = [code[0], code[0], code[0], code[0], code[0]];
    assert!(!cm.is_valid_code(&longer[..L + 1]), "a code longer than the code space is accepted");
    if L > 1 { assert!(!cm.is_valid_code(&code[..L - 1]), "a code shorter than the code space is accepted"); }
    // no explicit mapping and not an Identity CMap: nothing is mapped, inside or outside the code space
    assert!(cm.map(&code).is_none(), "a code without any mapping is mapped");
    std::mem::forget(cm);
    kani::cover!(rect_in && c == be_val(&e), "upper bound of the code space reached");
    kani::cover!(!num_in && c > be_val(&e), "code above the code space reached");
    kani::cover!(!num_in && c < be_val(&s), "code below the code space reached");
    kani::cover!(true, "end reached");
}
// @ob id=codespace_l1 unwind=8 tier=quick timeout=900 mem=16 bound="one code-space range of 1-byte codes with arbitrary bounds, every code; codes of length 2 rejected"
fn codespace_l1<const KF: usize>() { codespace::<1>() }
// @ob id=codespace_l2 unwind=8 tier=quick timeout=1200 mem=16 bound="one code-space range of 2-byte codes with arbitrary per-byte bounds, every code; codes of length 1 and 3 rejected"
fn codespace_l2<const KF: usize>() { codespace::<2>() }
// @ob id=codespace_l3 unwind=8 tier=thorough timeout=1800 mem=20 bound="one code-space range of 3-byte codes with arbitrary per-byte bounds"
fn codespace_l3<const KF: usize>() { codespace::<3>() }

/// bfchar entries (the parser stores them in the single_mappings cache) take precedence over a
/// range and are matched by their own key; any other code falls through to the range arithmetic.
fn bfchar<const L: usize>() {
    let k1: [u8; L] = kani::any();
    let k2: [u8; L] = kani::any();
    let d1: [u8; 2] = kani::any();
    let d2: [u8; 2] = kani::any();
    let s: [u8; L] = kani::any();
    let e: [u8; L] = kani::any();
    let d: [u8; 2] = kani::any();
    let code: [u8; L] = kani::any();
    kani::assume(be_val(&k1) != be_val(&k2));
    kani::assume(be_val(&s) <= be_val(&e));
    let mut cm = CMap::new();
    cm.cmap_type = CMapType::ToUnicode;
    cm.single_mappings.insert(vec_of(&k1), vec_of(&d1));
    cm.single_mappings.insert(vec_of(&k2), vec_of(&d2));
    cm.mappings.push(CMapEntry::Range { src_start: vec_of(&s), src_end: vec_of(&e), dst_start: vec_of(&d) });
    let lo = [0u8; L];
    let hi = [0xFFu8; L];
    cm.codespace_ranges.push(CodeRange { start: vec_of(&lo), end: vec_of(&hi) });
    let got = cm.map(&code);
    let c = be_val(&code);
    let want: Option<u64> = if c == be_val(&k1) { Some(be_val(&d1)) }
        else if c == be_val(&k2) { Some(be_val(&d2)) }
        else if c >= be_val(&s) && c <= be_val(&e) { Some((be_val(&d) + (c - be_val(&s))) & 0xFFFF) }
        else { None };
    match (&got, want) {
        (Some(v), Some(w)) => assert!(v.len() == 2 && be_val(v) == w, "bfchar/bfrange: a code is mapped to a value the CMap does not define for it"),
        (None, None) => {}
        (Some(_), None) => assert!(false, "a code with no bfchar and outside the bfrange is mapped"),
        (None, Some(_)) => assert!(false, "a code the CMap defines is not mapped"),
    }
    // a bfchar key of another length never matches (keys are compared whole)
    let longer = [code[0], code[0], code[0], code[0]];
    if c == be_val(&k1) {
        let mut l2 = longer; let mut j = 0; while j < L { l2[j] = code[j]; j += 1; }
        assert!(cm.map(&l2[..L + 1]).is_none(), "a longer code with a bfchar key as prefix is mapped");
    }
    std::mem::forget(cm);
    kani::cover!(c == be_val(&k2) && c >= be_val(&s) && c <= be_val(&e), "second bfchar inside the bfrange reached (precedence)");
    kani::cover!(got.is_none(), "unmapped code reached");
    kani::cover!(c != be_val(&k1) && c != be_val(&k2) && got.is_some(), "fall-through to the bfrange reached");
    kani::cover!(true, "end reached");
}
// @ob id=bfchar_l1 unwind=8 tier=quick timeout=1200 mem=16 bound="two bfchar entries + one bfrange, 1-byte codes, 2-byte destinations: every key pair, range, destination and looked-up code"
fn bfchar_l1<const KF: usize>() { bfchar::<1>() }
// @ob id=bfchar_l2 unwind=8 tier=quick timeout=1500 mem=20 bound="two bfchar entries + one bfrange, 2-byte codes, 2-byte destinations: every key pair, range, destination and looked-up code"
fn bfchar_l2<const KF: usize>() { bfchar::<2>() }
