// C16 — rotation arithmetic (child module of the sliced operations/rotate.rs).
use crate::verif_known as known;

fn any_angle() -> RotationAngle {
    let k: u8 = kani::any();
    kani::assume(k < 4);
    match k {
        0 => RotationAngle::None,
        1 => RotationAngle::Clockwise90,
        2 => RotationAngle::Rotate180,
        _ => RotationAngle::Clockwise270,
    }
}

/// mathematical (d mod 360) in 0..360 computed in i64, independent of the i32 code under test
fn mod360(d: i64) -> i64 {
    ((d % 360) + 360) % 360
}

// @ob id=from_degrees known="d: i32" tier=quick timeout=300 bound="all i32 degrees"
fn from_degrees<const KF: usize>() {
    let d: i32 = kani::any();
    kani::assume(known::from_degrees::<KF>(d));
    let r = RotationAngle::from_degrees(d);
    let m = mod360(d as i64);
    match r {
        Ok(a) => {
            assert!(m % 90 == 0, "a non-multiple of 90 is accepted");
            assert!(a.to_degrees() as i64 == m, "accepted angle is not congruent to the requested degrees mod 360");
        }
        Err(_) => assert!(m % 90 != 0, "a multiple of 90 is rejected"),
    }
    kani::cover!(d == -270 && r.is_ok(), "negative multiple reached");
    kani::cover!(d == i32::MIN, "i32::MIN reached");
    kani::cover!(r.is_err(), "rejection reached");
    kani::cover!(true, "end reached");
}

// @ob id=combine tier=quick timeout=300 bound="all 16 pairs of RotationAngle values (symbolic)"
fn combine<const KF: usize>() {
    let a = any_angle();
    let b = any_angle();
    let c = a.combine(b);
    assert!(c.to_degrees() == (a.to_degrees() + b.to_degrees()) % 360, "combine is not addition modulo 360");
    assert!(c.to_degrees() % 90 == 0 && c.to_degrees() >= 0 && c.to_degrees() < 360, "to_degrees outside 0/90/180/270");
    kani::cover!(a.to_degrees() == 270 && b.to_degrees() == 270, "270+270 reached");
    kani::cover!(true, "end reached");
}

// @ob id=rotated_page known="rot: i32, k: i32" mem=24 tier=quick timeout=300 bound="source /Rotate any i32, requested angle any of the four; Page model = {rotation} with the library's own Page::set_rotation; from_parsed_with_content modelled as the verbatim rotation copy it performs (page.rs)"
fn rotated_page<const KF: usize>() {
    let rot: i32 = kani::any();
    let angle = any_angle();
    kani::assume(known::rotated_page::<KF>(rot, angle.to_degrees()));
    let parsed = crate::parser::page_tree::ParsedPage { rotation: rot };
    let mut pr = PageRotator::new(crate::parser::PdfDocument::model());
    let page = pr.create_rotated_page(&parsed, angle, false);
    assert!(page.is_ok(), "rotating a page fails");
    let got = page.unwrap().get_rotation();
    let want = mod360(rot as i64 + angle.to_degrees() as i64);
    if mod360(rot as i64) % 90 == 0 {
        assert!(got as i64 == want, "rotation of the output page is not original + requested (mod 360)");
    } else {
        assert!(got % 90 == 0 && got >= 0 && got < 360, "output /Rotate is not a multiple of 90 in 0..360");
    }
    // unrotated copies keep their rotation (congruent mod 360)
    let copy = pr.create_page_copy(&parsed).unwrap();
    assert!(mod360(copy.get_rotation() as i64) == mod360(rot as i64), "page copy changes the rotation");
    kani::cover!(rot == 90 && angle.to_degrees() == 270, "complementary pair reached");
    kani::cover!(rot == -90, "negative source rotation reached");
    kani::cover!(true, "end reached");
}
