// C23 — permission bits vs ISO 32000-1 Table 22 (child module of the re-rooted encryption/permissions.rs).
const BASE: u32 = 0xFFFFF0C0; // bits 1-2 zero, 7-8 and 13-32 one, all permission bits clear
// Table 22 bit positions (1-based): print 3, modify 4, copy 5, annotate 6, fill forms 9,
// accessibility 10, assemble 11, print high quality 12
const B_PRINT: u32 = 1 << 2;
const B_MODIFY: u32 = 1 << 3;
const B_COPY: u32 = 1 << 4;
const B_ANNOT: u32 = 1 << 5;
const B_FILL: u32 = 1 << 8;
const B_ACCESS: u32 = 1 << 9;
const B_ASSEMBLE: u32 = 1 << 10;
const B_PRINT_HQ: u32 = 1 << 11;

// @ob id=perm_from_flags tier=quick timeout=300 bound="all 256 flag combinations"
fn perm_from_flags<const KF: usize>() {
    let f = PermissionFlags { print: kani::any(), modify_contents: kani::any(), copy: kani::any(), modify_annotations: kani::any(), fill_forms: kani::any(), accessibility: kani::any(), assemble: kani::any(), print_high_quality: kani::any() };
    let p = Permissions::from_flags(f);
    let mut want = BASE;
    if f.print { want |= B_PRINT; }
    if f.modify_contents { want |= B_MODIFY; }
    if f.copy { want |= B_COPY; }
    if f.modify_annotations { want |= B_ANNOT; }
    if f.fill_forms { want |= B_FILL; }
    if f.accessibility { want |= B_ACCESS; }
    if f.assemble { want |= B_ASSEMBLE; }
    if f.print_high_quality { want |= B_PRINT_HQ; }
    assert!(p.bits() == want, "permission bits differ from ISO 32000-1 Table 22");
    let g = p.flags();
    assert!(g.print == f.print && g.modify_contents == f.modify_contents && g.copy == f.copy && g.modify_annotations == f.modify_annotations
        && g.fill_forms == f.fill_forms && g.accessibility == f.accessibility && g.assemble == f.assemble && g.print_high_quality == f.print_high_quality,
        "flags() does not read back what from_flags() stored");
    assert!(Permissions::new().bits() == BASE && Permissions::all().bits() == 0xFFFFFFFC, "new()/all() differ from Table 22 (reserved bits)");
    kani::cover!(f.print_high_quality && !f.print, "HQ without print reached");
    kani::cover!(true, "end reached");
}

// @ob id=perm_bits_setters tier=quick timeout=300 bound="every u32 bit pattern as pre-state, each of the 8 setters with either argument, each getter"
fn perm_bits_setters<const KF: usize>() {
    let b: u32 = kani::any();
    let p0 = Permissions::from_bits(b);
    assert!(p0.bits() == b, "from_bits/bits is not the identity");
    assert!(p0.can_print() == (b & B_PRINT != 0) && p0.can_modify_contents() == (b & B_MODIFY != 0) && p0.can_copy() == (b & B_COPY != 0)
        && p0.can_modify_annotations() == (b & B_ANNOT != 0) && p0.can_fill_forms() == (b & B_FILL != 0)
        && p0.can_access_for_accessibility() == (b & B_ACCESS != 0) && p0.can_assemble() == (b & B_ASSEMBLE != 0)
        && p0.can_print_high_quality() == (b & B_PRINT_HQ != 0), "a getter reads a bit other than its Table 22 position");
    let which: u8 = kani::any();
    kani::assume(which < 8);
    let allow: bool = kani::any();
    let mut p = p0;
    let bit = match which {
        0 => { p.set_print(allow); B_PRINT }
        1 => { p.set_modify_contents(allow); B_MODIFY }
        2 => { p.set_copy(allow); B_COPY }
        3 => { p.set_modify_annotations(allow); B_ANNOT }
        4 => { p.set_fill_forms(allow); B_FILL }
        5 => { p.set_accessibility(allow); B_ACCESS }
        6 => { p.set_assemble(allow); B_ASSEMBLE }
        _ => { p.set_print_high_quality(allow); B_PRINT_HQ }
    };
    let want = if allow { b | bit } else { b & !bit };
    assert!(p.bits() == want, "a setter changes a bit other than its Table 22 position (or reserved bits)");
    kani::cover!(which == 7 && !allow, "clearing print-high-quality reached");
    kani::cover!(true, "end reached");
}
