// C01 / C21 — the content-stream tokenizer on arbitrary bytes (child module of parser/content.rs).
// @ob id=name_token tier=quick unwind=6 stubs=fmt,vec timeout=1200 mem=20 bound="ContentTokenizer::next_token on '/' followed by up to 3 arbitrary bytes (name scanning incl. '#' escapes at a truncated tail): value or error, position never past the input"
fn name_token<const KF: usize>() {
    let b: [u8; 3] = kani::any();
    let buf = [b'/', b[0], b[1], b[2]];
    let n: usize = kani::any();
    kani::assume(n >= 1 && n <= 4);
    let mut t = ContentTokenizer::new(&buf[..n]);
    let r = t.next_token();
    assert!(t.position <= n, "tokenizer position ran past the end of the input");
    kani::cover!(r.is_ok(), "name produced");
    kani::cover!(n == 4 && b[1] == b'#', "'#' with one trailing byte reached");
    std::mem::forget(r);
    kani::cover!(true, "end reached");
}
