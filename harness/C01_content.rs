// C01 / C21 — the content-stream tokenizer on arbitrary bytes (child module of parser/content.rs).
// @ob id=name_token tier=quick unwind=6 stubs=fmt,vec timeout=1200 mem=28 bound="ContentTokenizer::next_token on '/' followed by up to 3 arbitrary bytes (name scanning incl. '#' escapes at a truncated tail): value or error, position never past the input"
fn name_token<const KF: usize>() {
    let b: [u8; 3] = kani::any();
    let buf = [b'/', b[0], b[1], b[2]];
    let n: usize = kani::any();
    kani::assume(n >= 1 && n <= 4);
    let mut t = ContentTokenizer::new(&buf[..n]);
    let r = t.next_token();
    assert!(t.position <= n, "tokenizer position ran past the end of the input");
    kani::cover!(r.is_ok(), "name produced");
    kani::cover!(n == 4 && b[1] == b'#', "'#' with one trailing byte reached");
    std::mem::forget(r);
    kani::cover!(true, "end reached");
}

// The string scanners, called directly (next_token dispatches to them on '(' and '<'): arbitrary
// bytes incl. truncated escapes, unbalanced parentheses, odd hex digits.
// @ob id=string_scanners tier=quick unwind=8 stubs=fmt,vec timeout=1500 mem=24 bound="read_literal_string on '(' + up to 4 arbitrary bytes and read_hex_string on '<' + up to 4 arbitrary bytes: value or error, position never past the input, output no longer than the input"
fn string_scanners<const KF: usize>() {
    let b: [u8; 4] = kani::any();
    let hex: bool = kani::any();
    let buf = [if hex { b'<' } else { b'(' }, b[0], b[1], b[2], b[3]];
    let n: usize = kani::any();
    kani::assume(n >= 1 && n <= 5);
    let mut t = ContentTokenizer::new(&buf[..n]);
    let r = if hex { t.read_hex_string() } else { t.read_literal_string() };
    assert!(t.position <= n, "tokenizer position ran past the end of the input");
    match &r {
        Ok(Some(Token::String(v))) | Ok(Some(Token::HexString(v))) => assert!(v.len() <= n, "scanned string longer than its input"),
        _ => {}
    }
    kani::cover!(hex && r.is_ok(), "hex string scanned");
    kani::cover!(!hex && n == 2 && b[0] == b'\\', "backslash at the very end reached");
    std::mem::forget(r);
    kani::cover!(true, "end reached");
}
