// C10 — text strings: decode_text_string (ISO 32000-1 7.9.2.2) (child module of the parser/objects.rs slice).
use crate::spec::annex_d as tbl;
use crate::verif_known as known;

fn single_char(s: &str) -> Option<char> {
    let mut it = s.chars();
    let c = it.next()?;
    if it.next().is_some() { return None; }
    Some(c)
}

// @ob id=pdfdoc_byte known="b: u8" unwind=6 tier=quick timeout=600 bound="decode_text_string on every 1-byte string without BOM vs the PDFDocEncoding table of Annex D.2 (what every conforming reader applies to a text string without BOM)"
fn pdfdoc_byte<const KF: usize>() {
    let b: u8 = kani::any();
    kani::assume(known::pdfdoc_byte::<KF>(b));
    let s = decode_text_string(&[b]);
    let got = single_char(&s);
    assert!(got.is_some(), "one byte does not decode to one character");
    let want = tbl::PDFDOC[b as usize];
    if want != 0 {
        assert!(got.unwrap() as u32 == want, "text string byte decodes differently from PDFDocEncoding");
    } else if b < 0x18 {
        assert!(got.unwrap() as u32 == b as u32, "a control code is altered");
    }
    kani::cover!(b == b'A', "ASCII letter reached");
    kani::cover!(true, "end reached");
}

// @ob id=utf16_bmp unwind=6 tier=quick timeout=900 bound="decode_text_string on FE FF + one UTF-16BE code unit: every non-surrogate BMP value decodes to that scalar"
fn utf16_bmp<const KF: usize>() {
    let w: u16 = kani::any();
    kani::assume(w < 0xD800 || w > 0xDFFF);
    let s = decode_text_string(&[0xFE, 0xFF, (w >> 8) as u8, w as u8]);
    let got = single_char(&s);
    assert!(matches!(got, Some(c) if c as u32 == w as u32), "a BMP code unit does not decode to its scalar value");
    kani::cover!(w == 0x00F1, "n-tilde reached");
    kani::cover!(true, "end reached");
}

// (surrogate pairs: String::from_utf16_lossy on two symbolic code units runs out of memory at 24 GB; the
// library's own part -- pairing bytes big-endian into u16 -- is already decided by utf16_bmp)

// What the writer emits for Object::String(text) is the UTF-8 bytes of `text` (escaped; C09): composed
// with decode_text_string this is the library's own write -> read path for document information,
// field values, annotation contents and outline titles.
fn utf8_roundtrip<const KF: usize, const W: usize>() {
    let c: char = kani::any();
    kani::assume(c.len_utf8() == W);
    kani::assume(known::utf8_roundtrip::<KF>(c));
    let mut buf = [0u8; 4];
    c.encode_utf8(&mut buf);
    let s = decode_text_string(&buf[..W]);
    let got = single_char(&s);
    assert!(matches!(got, Some(x) if x == c), "text written as UTF-8 bytes does not read back as the same character");
    kani::cover!(true, "end reached");
}
// @ob id=utf8_roundtrip_w1 kfgroup=utf8_roundtrip known="c: char" unwind=6 tier=quick timeout=600 bound="every 1-byte (ASCII) character through emit-as-UTF-8 then decode_text_string"
fn utf8_roundtrip_w1<const KF: usize>() { utf8_roundtrip::<KF, 1>() }
// @ob id=utf8_roundtrip_w2 kfgroup=utf8_roundtrip main=no known="c: char" unwind=6 tier=quick timeout=900 bound="every 2-byte character (U+0080..U+07FF) through emit-as-UTF-8 then decode_text_string"
fn utf8_roundtrip_w2<const KF: usize>() { utf8_roundtrip::<KF, 2>() }
// @ob id=utf8_roundtrip_w3 kfgroup=utf8_roundtrip main=no known="c: char" unwind=6 tier=thorough timeout=1200 bound="every 3-byte character through emit-as-UTF-8 then decode_text_string"
fn utf8_roundtrip_w3<const KF: usize>() { utf8_roundtrip::<KF, 3>() }
