// C04 — the newest revision of an object wins (child module of the sliced parser/xref.rs).
use crate::verif_known as known;

// @ob id=headers_latest_wins unwind=6 stubs=fmt,vec tier=quick timeout=1200 mem=20 bound="add_headers_latest_wins on 3 scanned headers (arbitrary object numbers, generations, ascending offsets) over a table holding one arbitrary regular and one arbitrary compressed entry, check_extended arbitrary"
fn headers_latest_wins<const KF: usize>() {
    let n: [u32; 3] = kani::any();
    let g: [u16; 3] = kani::any();
    let o: [u64; 3] = kani::any();
    kani::assume(o[0] < o[1] && o[1] < o[2]);
    let hs = [ObjHeader { obj_num: n[0], generation: g[0], offset: o[0] }, ObjHeader { obj_num: n[1], generation: g[1], offset: o[1] }, ObjHeader { obj_num: n[2], generation: g[2], offset: o[2] }];
    let mut t = XRefTable::new();
    let occ: u32 = kani::any();
    let occ_off: u64 = kani::any();
    let has_occ: bool = kani::any();
    if has_occ { t.add_entry(occ, XRefEntry { offset: occ_off, generation: 0, in_use: true }); }
    let cmp: u32 = kani::any();
    let has_cmp: bool = kani::any();
    if has_cmp { t.add_extended_entry(cmp, XRefEntryExt { basic: XRefEntry { offset: 0, generation: 0, in_use: true }, compressed_info: Some((7, 0)) }); }
    let check_extended: bool = kani::any();
    t.add_headers_latest_wins(&hs, check_extended);
    let mut i = 0;
    while i < 3 {
        // the last header with this object number
        let mut last = i;
        let mut j = i + 1;
        while j < 3 { if n[j] == n[i] { last = j; } j += 1; }
        let protected = (has_occ && occ == n[i]) || (check_extended && has_cmp && cmp == n[i]);
        let e = t.get_entry(n[i]);
        if protected {
            if has_occ && occ == n[i] {
                assert!(matches!(e, Some(x) if x.offset == occ_off), "an entry resolved from a valid xref is overridden by the scan");
            } else {
                assert!(e.is_none(), "a compressed resolution is overridden by the scan");
            }
        } else {
            assert!(matches!(e, Some(x) if x.offset == o[last] && x.generation == g[last] && x.in_use), "scanned object does not resolve to its LAST (highest-offset) header");
        }
        i += 1;
    }
    kani::cover!(n[0] == n[1] && n[1] == n[2], "same object three times reached");
    kani::cover!(n[0] == n[2] && g[0] != g[2], "re-used number with another generation reached");
    std::mem::forget(t);
    kani::cover!(true, "end reached");
}

// @ob id=table_accessors unwind=6 stubs=fmt,vec tier=quick timeout=900 mem=16 bound="XRefTable::{add_entry, add_extended_entry, get_entry, get_extended_entry, is_compressed} on two arbitrary object numbers: the LAST entry added for a number is the one returned, other numbers are unaffected, is_compressed is true exactly for numbers with a compressed record"
fn table_accessors<const KF: usize>() {
    let a: u32 = kani::any();
    let b: u32 = kani::any();
    let o1: u64 = kani::any();
    let o2: u64 = kani::any();
    let g: u16 = kani::any();
    let mut t = XRefTable::new();
    assert!(t.get_entry(a).is_none() && !t.is_compressed(a), "a fresh table resolves an object");
    t.add_entry(a, XRefEntry { offset: o1, generation: g, in_use: true });
    t.add_entry(b, XRefEntry { offset: o2, generation: 0, in_use: false });
    // the later add wins when a == b
    let ea = t.get_entry(a);
    if a == b {
        assert!(matches!(ea, Some(e) if e.offset == o2 && !e.in_use), "re-adding an object number does not replace its entry");
    } else {
        assert!(matches!(ea, Some(e) if e.offset == o1 && e.generation == g && e.in_use), "adding another object number disturbs an existing entry");
        assert!(matches!(t.get_entry(b), Some(e) if e.offset == o2 && !e.in_use), "an added entry is not returned");
    }
    let s: u32 = kani::any();
    let i: u32 = kani::any();
    t.add_extended_entry(b, XRefEntryExt { basic: XRefEntry { offset: 0, generation: 0, in_use: true }, compressed_info: Some((s, i)) });
    assert!(t.is_compressed(b), "a compressed record is not reported");
    assert!(a == b || !t.is_compressed(a), "an uncompressed object is reported compressed");
    assert!(matches!(t.get_extended_entry(b), Some(x) if x.compressed_info == Some((s, i))), "the compressed record read back differs");
    std::mem::forget(t);
    kani::cover!(a == b, "same object number reached");
    kani::cover!(a != b, "distinct object numbers reached");
    kani::cover!(true, "end reached");
}
