// C04 — the newest revision of an object wins (child module of the sliced parser/xref.rs).
use crate::verif_known as known;

#[derive(Clone, Copy, PartialEq, Debug)]
enum Res { Missing, InUse(u64, u16), Free, Compressed(u32, u32) }

/// how PdfReader::load_object_from_disk dispatches on the merged table (reader.rs: extended
/// entry with compressed_info first, then `entries`; a free entry reads as null)
fn resolve(t: &XRefTable, n: u32) -> Res {
    if let Some(ext) = t.get_extended_entry(n) {
        if let Some((s, i)) = ext.compressed_info {
            return Res::Compressed(s, i);
        }
    }
    match t.get_entry(n) {
        Some(e) if e.in_use => Res::InUse(e.offset, e.generation),
        Some(_) => Res::Free,
        None => Res::Missing,
    }
}

// @ob id=merge_chain known="older_compressed_shadowed: bool" unwind=6 stubs=fmt,vec tier=quick timeout=1800 mem=24 bound="XRefTable::parse_with_incremental_updates_options over every /Prev chain of up to 3 revisions (incl. cyclic /Prev), each revision stating objects 1 and 2 independently as absent / in use (256 offsets x 256 generations) / free / compressed (256 x 256 stream/index pairs)"
fn merge_chain<const KF: usize>() {
    let kind: [[u8; 2]; 3] = kani::any();
    // offsets / generations / (stream, index) range over 256 values each, widened to the field types
    // (the merge never computes with them: it only has to carry the right ones through)
    let off8: [[u8; 2]; 3] = kani::any();
    let gen8: [[u8; 2]; 3] = kani::any();
    let ci8: [[(u8, u8); 2]; 3] = kani::any();
    let mut off = [[0u64; 2]; 3];
    let mut gen = [[0u16; 2]; 3];
    let mut ci = [[(0u32, 0u32); 2]; 3];
    let mut a = 0;
    while a < 3 {
        let mut b = 0;
        while b < 2 {
            off[a][b] = off8[a][b] as u64;
            gen[a][b] = gen8[a][b] as u16;
            ci[a][b] = (ci8[a][b].0 as u32, ci8[a][b].1 as u32);
            b += 1;
        }
        a += 1;
    }
    let prev: [u8; 3] = kani::any();
    let start: u8 = kani::any();
    kani::assume(start < 3);
    let mut r = 0;
    while r < 3 {
        kani::assume(kind[r][0] <= 3 && kind[r][1] <= 3);
        kani::assume(prev[r] < 3 || prev[r] == 255);
        r += 1;
    }
    // expected: walk the chain newest-first, first statement about each object wins
    let mut want = [Res::Missing; 2];
    let mut seen = [false; 3];
    let mut cur = start;
    let mut steps = 0;
    let mut stale_compressed = false;
    while steps < 3 && cur < 3 && !seen[cur as usize] {
        seen[cur as usize] = true;
        let c = cur as usize;
        let mut j = 0;
        while j < 2 {
            if want[j] == Res::Missing && kind[c][j] != 0 {
                want[j] = match kind[c][j] { 1 => Res::InUse(off[c][j], gen[c][j]), 2 => Res::Free, _ => Res::Compressed(ci[c][j].0, ci[c][j].1) };
            } else if want[j] != Res::Missing && kind[c][j] == 3 && !matches!(want[j], Res::Compressed(_, _)) {
                stale_compressed = true; // an OLDER compressed statement under a newer plain one
            }
            j += 1;
        }
        cur = prev[c];
        steps += 1;
    }
    kani::assume(known::merge_chain::<KF>(stale_compressed));
    unsafe { VERIF_KIND = kind; VERIF_OFF = off; VERIF_GEN = gen; VERIF_CI = ci; VERIF_PREV = prev; VERIF_START = start; }
    let mut reader = BufReader::new(VerifNullFile { pos: 0 });
    let opts = super::ParseOptions::default();
    let merged = XRefTable::parse_with_incremental_updates_options(&mut reader, &opts);
    assert!(merged.is_ok(), "merging a well-formed revision chain fails");
    let t = merged.unwrap();
    let got0 = resolve(&t, 1);
    let got1 = resolve(&t, 2);
    assert!(got0 == want[0], "object 1 does not resolve to its most recent definition");
    assert!(got1 == want[1], "object 2 does not resolve to its most recent definition");
    kani::cover!(seen[0] && seen[1] && seen[2], "three-revision chain reached");
    kani::cover!(want[0] == Res::Free && kind[0][0] == 1, "free entry over an older in-use entry reached");
    kani::cover!(matches!(want[1], Res::Compressed(_, _)), "compressed resolution reached");
    std::mem::forget(t);
    std::mem::forget(reader);
    kani::cover!(true, "end reached");
}

// @ob id=headers_latest_wins unwind=6 stubs=fmt,vec tier=quick timeout=1200 mem=20 bound="add_headers_latest_wins on 3 scanned headers (arbitrary object numbers, generations, ascending offsets) over a table holding one arbitrary regular and one arbitrary compressed entry, check_extended arbitrary"
fn headers_latest_wins<const KF: usize>() {
    let n: [u32; 3] = kani::any();
    let g: [u16; 3] = kani::any();
    let o: [u64; 3] = kani::any();
    kani::assume(o[0] < o[1] && o[1] < o[2]);
    let hs = [ObjHeader { obj_num: n[0], generation: g[0], offset: o[0] }, ObjHeader { obj_num: n[1], generation: g[1], offset: o[1] }, ObjHeader { obj_num: n[2], generation: g[2], offset: o[2] }];
    let mut t = XRefTable::new();
    let occ: u32 = kani::any();
    let occ_off: u64 = kani::any();
    let has_occ: bool = kani::any();
    if has_occ { t.add_entry(occ, XRefEntry { offset: occ_off, generation: 0, in_use: true }); }
    let cmp: u32 = kani::any();
    let has_cmp: bool = kani::any();
    if has_cmp { t.add_extended_entry(cmp, XRefEntryExt { basic: XRefEntry { offset: 0, generation: 0, in_use: true }, compressed_info: Some((7, 0)) }); }
    let check_extended: bool = kani::any();
    t.add_headers_latest_wins(&hs, check_extended);
    let mut i = 0;
    while i < 3 {
        // the last header with this object number
        let mut last = i;
        let mut j = i + 1;
        while j < 3 { if n[j] == n[i] { last = j; } j += 1; }
        let protected = (has_occ && occ == n[i]) || (check_extended && has_cmp && cmp == n[i]);
        let e = t.get_entry(n[i]);
        if protected {
            if has_occ && occ == n[i] {
                assert!(matches!(e, Some(x) if x.offset == occ_off), "an entry resolved from a valid xref is overridden by the scan");
            } else {
                assert!(e.is_none(), "a compressed resolution is overridden by the scan");
            }
        } else {
            assert!(matches!(e, Some(x) if x.offset == o[last] && x.generation == g[last] && x.in_use), "scanned object does not resolve to its LAST (highest-offset) header");
        }
        i += 1;
    }
    kani::cover!(n[0] == n[1] && n[1] == n[2], "same object three times reached");
    kani::cover!(n[0] == n[2] && g[0] != g[2], "re-used number with another generation reached");
    std::mem::forget(t);
    kani::cover!(true, "end reached");
}
