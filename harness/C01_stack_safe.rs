// C01 — the recursion-depth guard and the circular-reference stack (child module of the re-rooted
// parser/stack_safe.rs).  One step from an ARBITRARY valid context state: depth never exceeds
// max_depth, so every recursion that goes through RecursionGuard is bounded by max_depth frames.
// The clock is an arbitrary instant / arbitrary elapsed time (environment).
fn ctx(depth: usize, max_depth: usize) -> StackSafeContext {
    let mut c = StackSafeContext::with_limits(max_depth, 120);
    c.depth = depth;
    c
}

// @ob id=depth_guard_step unwind=6 stubs=fmt,instant tier=quick timeout=600 bound="enter / exit / RecursionGuard from every state (depth <= max_depth < usize::MAX, any clock reading): depth stays <= max_depth, a refused enter leaves the state unchanged, a dropped guard restores the depth"
fn depth_guard_step<const KF: usize>() {
    let depth: usize = kani::any();
    let max: usize = kani::any();
    kani::assume(depth <= max && max < usize::MAX);
    let mut c = ctx(depth, max);
    let r = c.enter();
    match &r {
        Ok(()) => assert!(c.depth == depth + 1 && c.depth <= max, "enter succeeded beyond the depth limit"),
        Err(_) => assert!(c.depth == depth || c.depth == depth + 1, "a refused enter changed the depth arbitrarily"),
    }
    if r.is_err() && depth + 1 > max { assert!(c.depth == depth, "enter at the limit changed the depth"); }
    std::mem::forget(r);
    let d1 = c.depth;
    c.exit();
    assert!(c.depth == if d1 > 0 { d1 - 1 } else { 0 }, "exit is not a saturating decrement");
    // guard: depth restored on drop
    let mut g = ctx(depth, max);
    {
        let guard = RecursionGuard::new(&mut g);
        if let Err(e) = guard { std::mem::forget(e); }
    }
    assert!(g.depth <= max, "depth beyond the limit after a guard");
    kani::cover!(depth == max, "state at the limit reached");
    kani::cover!(depth == 0, "fresh state reached");
    std::mem::forget(c); std::mem::forget(g);
    kani::cover!(true, "end reached");
}

// @ob id=ref_stack_step unwind=10 stubs=fmt,instant,vec tier=quick timeout=900 mem=16 bound="push_ref / pop_ref from every active stack of 0..=2 arbitrary references: a reference already on the stack is refused (cycle), anything else is pushed; pop removes the most recent one"
fn ref_stack_step<const KF: usize>() {
    let r0: (u32, u16) = kani::any();
    let r1: (u32, u16) = kani::any();
    let n: usize = kani::any();
    kani::assume(n <= 2);
    kani::assume(n < 2 || r0 != r1);
    let mut c = ctx(0, 10);
    if n >= 1 { c.active_stack.push(r0); }
    if n >= 2 { c.active_stack.push(r1); }
    let k: (u32, u16) = kani::any();
    let on_stack = (n >= 1 && k == r0) || (n >= 2 && k == r1);
    let r = c.push_ref(k.0, k.1);
    match &r {
        Ok(()) => assert!(!on_stack && c.active_stack.len() == n + 1 && c.active_stack[n] == k, "a reference already being resolved was accepted (cycle not detected) or not pushed"),
        Err(_) => assert!(on_stack && c.active_stack.len() == n, "a fresh reference was refused"),
    }
    let before = c.active_stack.len();
    c.pop_ref();
    assert!(c.active_stack.len() == if before > 0 { before - 1 } else { 0 }, "pop_ref does not remove exactly the most recent reference");
    std::mem::forget(r); std::mem::forget(c);
    kani::cover!(on_stack, "cycle reached");
    kani::cover!(true, "end reached");
}
