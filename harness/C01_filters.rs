// C01 — the stream-filter kernels never panic (incl. arithmetic overflow), for arbitrary
// bytes and arbitrary integer parameters (child module of the sliced parser/filters.rs).
// "No panic" is Kani's default checks (overflow, bounds, division by zero, unwrap, unreachable)
// plus unwinding assertions (loops end within the stated number of iterations).
use crate::verif_known as known;
use crate::parser::objects::{PdfDictionary as Dict, PdfObject as Obj};

/// Parameter dictionary whose integer entries are SYMBOLIC (any i64, present or absent):
/// stubs of PdfDictionary::get / PdfObject::as_integer for the sizing-arithmetic obligations.
pub mod p_sym {
    use super::Obj;
    pub static O: [Obj; 6] = [Obj::Null, Obj::Null, Obj::Null, Obj::Null, Obj::Null, Obj::Null];
    pub static mut V: [i64; 6] = [0; 6];
    pub static mut PRESENT: [bool; 6] = [false; 6];
    pub fn get<'a>(_d: &'a super::Dict, key: &str) -> Option<&'a Obj> {
        let id = crate::verif_shims::pdfdict_model::key_id(key) as usize;
        // 1 Columns, 2 Colors, 3 BitsPerComponent, 4 Predictor, 5 EarlyChange
        if id >= 1 && id <= 5 && unsafe { PRESENT[id] } { Some(&O[id]) } else { None }
    }
    pub fn as_integer(o: &Obj) -> Option<i64> {
        let mut i = 1;
        while i < 6 {
            if core::ptr::eq(o, &O[i]) { return Some(unsafe { V[i] }); }
            i += 1;
        }
        match o { Obj::Integer(x) => Some(*x), _ => None }
    }
    pub fn randomize() {
        let v: [i64; 6] = kani::any();
        let p: [bool; 6] = kani::any();
        unsafe { V = v; PRESENT = p; }
    }
    /// The same parameters as a real dictionary value: under Kani the stubs above answer the
    /// lookups (with identical values); in a native replay, where stubs are not applied, the
    /// dictionary itself does -- so a counterexample replays faithfully.
    pub fn dict() -> super::Dict {
        let mut d = super::Dict::new();
        unsafe {
            d.set_int_slot(0, "Columns", PRESENT[1], V[1]);
            d.set_int_slot(1, "Colors", PRESENT[2], V[2]);
            d.set_int_slot(2, "BitsPerComponent", PRESENT[3], V[3]);
            d.set_int_slot(3, "Predictor", PRESENT[4], V[4]);
            d.set_int_slot(4, "EarlyChange", PRESENT[5], V[5]);
        }
        d
    }
}

// @ob id=predictor_sizing known="cols: i64, colors: i64, bpc: i64" unwind=8 unwindset="key_id.0:24,key_id.1:36,apply_png_predictor_advanced.0:3" stubs=fmt,vec,params:p_sym tier=quick timeout=900 mem=28 bound="apply_predictor with EVERY u32 predictor value and /Columns, /Colors, /BitsPerComponent each any i64 or absent; data of 0..=1 arbitrary bytes (row-size arithmetic, modulo, row count)"
fn predictor_sizing<const KF: usize>() {
    p_sym::randomize();
    let (cols, colors, bpc) = unsafe { (p_sym::V[1], p_sym::V[2], p_sym::V[3]) };
    kani::assume(known::predictor_sizing::<KF>(cols, colors, bpc));
    let pred: u32 = kani::any();
    let data: [u8; 1] = kani::any();
    let n: usize = kani::any();
    kani::assume(n <= 1);
    let d = p_sym::dict();
    let r = apply_predictor(&data[..n], pred, &d);
    if let Ok(v) = &r {
        assert!(v.len() <= n, "predictor output longer than its input");
    }
    kani::cover!(r.is_err(), "rejection reached");
    kani::cover!(r.is_ok() && pred >= 10, "PNG predictor accepted");
    std::mem::forget(r);
    std::mem::forget(d);
    kani::cover!(true, "end reached");
}

// @ob id=a85_nopanic unwind=9 stubs=fmt,vec tier=quick timeout=1500 mem=28 bound="ASCII85: every five-digit group ('!'..='u' each, incl. values above 2^32-1) + '~>', unbounded decode"
fn a85_nopanic<const KF: usize>() {
    let d: [u8; 5] = kani::any();
    let mut i = 0;
    while i < 5 { kani::assume(d[i] >= b'!' && d[i] <= b'u'); i += 1; }
    let enc = [d[0], d[1], d[2], d[3], d[4], b'~', b'>'];
    let r = decode_ascii85(&enc);
    if let Ok(v) = &r {
        assert!(v.len() == 4, "a full group does not decode to 4 bytes");
    }
    kani::cover!(r.is_err(), "group above 2^32-1 rejected");
    kani::cover!(r.is_ok(), "group accepted");
    std::mem::forget(r);
    kani::cover!(true, "end reached");
}

// @ob id=hex_rle_nopanic unwind=8 stubs=fmt,vec tier=quick timeout=1500 mem=24 bound="ASCIIHex and RunLength: every 3-byte input (RunLength runs up to 4 bytes), any limit: value or error, output length <= 128 x input length"
fn hex_rle_nopanic<const KF: usize>() {
    let buf: [u8; 3] = kani::any();
    let max: usize = kani::any();
    let which: bool = kani::any();
    if which {
        let r = decode_ascii_hex_with_limit(&buf, max);
        if let Ok(v) = &r { assert!(v.len() <= 2, "ASCIIHex output longer than half the digits (rounded up)"); }
        std::mem::forget(r);
    } else {
        kani::assume((buf[0] <= 3 || buf[0] >= 253 || buf[0] == 128) && (buf[1] <= 3 || buf[1] >= 253 || buf[1] == 128) && (buf[2] <= 3 || buf[2] >= 253 || buf[2] == 128));
        let r = decode_run_length_with_limit(&buf, max);
        if let Ok(v) = &r { assert!(v.len() <= 128 * 3, "RunLength output exceeds 128 bytes per input byte"); }
        std::mem::forget(r);
    }
    kani::cover!(which, "hex reached");
    kani::cover!(!which, "rle reached");
    kani::cover!(true, "end reached");
}

// @ob id=lzw_bitreader tier=quick unwind=6 timeout=600 bound="LzwBitReader::read_bits: every n in u32, every reader state (byte_pos <= 3, bit_pos <= 7) over every 3-byte buffer, two consecutive reads"
fn lzw_bitreader<const KF: usize>() {
    let buf: [u8; 3] = kani::any();
    let mut r = LzwBitReader::new(&buf);
    let bp: usize = kani::any();
    let bit: u8 = kani::any();
    kani::assume(bp <= 3 && bit <= 7);
    r.byte_pos = bp;
    r.bit_pos = bit;
    let n: u32 = kani::any();
    let a = r.read_bits(n);
    if let Some(v) = a {
        assert!(n >= 1 && n <= 16 && (v as u64) < (1u64 << n), "read_bits returned more than n bits");
    }
    assert!(r.bit_pos <= 7 && r.byte_pos <= 3, "bit reader state left its invariant");
    let n2: u32 = kani::any();
    let _ = r.read_bits(n2);
    assert!(r.bit_pos <= 7 && r.byte_pos <= 3, "bit reader state left its invariant");
    kani::cover!(a.is_some() && n == 12, "12-bit code read");
    kani::cover!(a.is_none(), "exhaustion reached");
    kani::cover!(true, "end reached");
}

