// C27 — page-label numbering styles vs ISO 32000-1 §12.4.2 (child module of page_label.rs).
use crate::verif_known as known;

/// §12.4.2 letters: A..Z for the first 26 values, AA..ZZ for the next 26, and so on:
/// value n -> letter ((n-1) mod 26) repeated ((n-1) div 26 + 1) times.
fn spec_letters_ok(n: u32, upper: bool, got: &[u8]) -> bool {
    let letter = (if upper { b'A' } else { b'a' }) + ((n - 1) % 26) as u8;
    let count = ((n - 1) / 26 + 1) as usize;
    if got.len() != count {
        return false;
    }
    let mut i = 0;
    while i < got.len() {
        if got[i] != letter {
            return false;
        }
        i += 1;
    }
    true
}

// @ob id=letters known="n: u32, upper: bool" unwind=8 stubs=string_insert tier=quick timeout=300 bound="n in 1..=130 (labels of up to 5 letters), both cases; to_letters and PageLabelStyle::format"
fn letters<const KF: usize>() {
    let n: u32 = kani::any();
    let upper: bool = kani::any();
    kani::assume(n >= 1 && n <= 130);
    kani::assume(known::letters::<KF>(n, upper));
    let s = to_letters(n, upper);
    assert!(spec_letters_ok(n, upper, s.as_bytes()), "letters label differs from ISO 32000-1 12.4.2 (A..Z, AA..ZZ, AAA..ZZZ)");
    // receiver kept concrete per branch: a symbolic enum discriminant would make symex walk
    // every arm of `format` (Roman loops, integer formatting) for nothing
    let f = if upper { PageLabelStyle::UppercaseLetters.format(n) } else { PageLabelStyle::LowercaseLetters.format(n) };
    assert!(spec_letters_ok(n, upper, f.as_bytes()), "PageLabelStyle::format (letters) differs from the specification");
    kani::cover!(n == 27, "second cycle reached");
    kani::cover!(n == 26 && !upper, "z reached");
    kani::cover!(true, "end reached");
}

/// canonical Roman numeral by digit tables (independent of the greedy subtraction the library uses)
fn spec_roman(n: u32, out: &mut [u8; 16]) -> usize {
    const TH: [&[u8]; 4] = [b"", b"m", b"mm", b"mmm"];
    const HU: [&[u8]; 10] = [b"", b"c", b"cc", b"ccc", b"cd", b"d", b"dc", b"dcc", b"dccc", b"cm"];
    const TE: [&[u8]; 10] = [b"", b"x", b"xx", b"xxx", b"xl", b"l", b"lx", b"lxx", b"lxxx", b"xc"];
    const ON: [&[u8]; 10] = [b"", b"i", b"ii", b"iii", b"iv", b"v", b"vi", b"vii", b"viii", b"ix"];
    let parts: [&[u8]; 4] = [TH[(n / 1000) as usize], HU[((n / 100) % 10) as usize], TE[((n / 10) % 10) as usize], ON[(n % 10) as usize]];
    let mut k = 0;
    let mut p = 0;
    while p < 4 {
        let mut j = 0;
        while j < parts[p].len() {
            out[k] = parts[p][j];
            k += 1;
            j += 1;
        }
        p += 1;
    }
    k
}

fn bytes_eq(a: &[u8], b: &[u8], upper_b: bool) -> bool {
    if a.len() != b.len() {
        return false;
    }
    let mut i = 0;
    while i < a.len() {
        let want = if upper_b { b[i].to_ascii_uppercase() } else { b[i] };
        if a[i] != want {
            return false;
        }
        i += 1;
    }
    true
}

// @ob id=roman_lower known="n: u32" unwind=17 unwindset="to_roman.0:5,to_roman.1:15" stubs=string_new,push_str,str_repeat tier=quick timeout=900 mem=24 bound="n in 1..=3999; to_roman vs digit-table numeral"
fn roman_lower<const KF: usize>() {
    let n: u32 = kani::any();
    kani::assume(n >= 1 && n <= 3999);
    kani::assume(known::roman_lower::<KF>(n));
    let s = to_roman(n);
    let mut exp = [0u8; 16];
    let k = spec_roman(n, &mut exp);
    assert!(bytes_eq(s.as_bytes(), &exp[..k], false), "lowercase Roman numeral is not the canonical numeral");
    kani::cover!(n == 3888, "longest numeral reached");
    kani::cover!(n == 1994, "mcmxciv reached");
    kani::cover!(true, "end reached");
}

// @ob id=roman_styles known="n: u32, upper: bool" unwind=17 unwindset="to_roman.0:5,to_roman.1:15" stubs=to_uppercase,string_new,push_str,str_repeat tier=quick timeout=900 mem=24 bound="n in 1..=399 (up to ccclxxxviii); PageLabelStyle::{UppercaseRoman,LowercaseRoman}::format"
fn roman_styles<const KF: usize>() {
    let n: u32 = kani::any();
    let upper: bool = kani::any();
    kani::assume(n >= 1 && n <= 399);
    kani::assume(known::roman_styles::<KF>(n, upper));
    let s = if upper { PageLabelStyle::UppercaseRoman.format(n) } else { PageLabelStyle::LowercaseRoman.format(n) };
    let mut exp = [0u8; 16];
    let k = spec_roman(n, &mut exp);
    assert!(bytes_eq(s.as_bytes(), &exp[..k], upper), "Roman style label differs (case or numeral)");
    kani::cover!(upper && n == 388, "uppercase longest reached");
    kani::cover!(true, "end reached");
}

// @ob id=label_arith known="start: u32, offset: u32" unwind=8 stubs=string_insert tier=quick timeout=300 bound="all (start, offset) in u32 x u32 for the numeric-portion arithmetic; label text checked for results in 1..=26 (one letter)"
fn label_arith<const KF: usize>() {
    let start: u32 = kani::any();
    let offset: u32 = kani::any();
    kani::assume(known::label_arith::<KF>(start, offset));
    let lab = PageLabel::new(PageLabelStyle::UppercaseLetters).starting_at(start);
    // the numeric portion is start + offset (12.4.2: /St is the value of the first page of the range)
    let sum = start as u64 + offset as u64;
    if sum >= 1 && sum <= 26 {
        let s = lab.format_label(offset);
        assert!(s.len() == 1 && s.as_bytes()[0] == b'A' + (sum as u8 - 1), "label number is not start + offset");
    } else if sum > u32::MAX as u64 {
        // must not panic (checked by Kani's overflow check inside format_label); result unspecified
        let none = PageLabel::new(PageLabelStyle::None).starting_at(start);
        let _ = none.format_label(offset);
        let dec = PageLabel { style: PageLabelStyle::UppercaseLetters, prefix: None, start };
        kani::assume(offset == u32::MAX && start == 2); // one overflow witness keeps the letter loop short
        let _ = dec.format_label(offset);
    }
    kani::cover!(sum == 26, "Z reached");
    kani::cover!(sum > u32::MAX as u64, "overflow region reached");
    kani::cover!(true, "end reached");
}

fn ascii_string(b: &[u8]) -> String {
    let mut s = String::with_capacity(4);
    let mut i = 0;
    while i < b.len() {
        s.push(b[i] as char);
        i += 1;
    }
    s
}

// @ob id=prefix_only tier=quick unwind=6 timeout=300 bound="style None with prefixes of 0..=2 ASCII bytes, any start/offset: label is exactly the prefix"
fn prefix_only<const KF: usize>() {
    let start: u32 = kani::any();
    let offset: u32 = kani::any();
    let p0: u8 = kani::any();
    let p1: u8 = kani::any();
    kani::assume(p0 < 0x80 && p1 < 0x80);
    let which: u8 = kani::any();
    let lab = match which % 3 {
        0 => PageLabel { style: PageLabelStyle::None, prefix: None, start },
        1 => PageLabel { style: PageLabelStyle::None, prefix: Some(ascii_string(&[p0])), start },
        _ => PageLabel { style: PageLabelStyle::None, prefix: Some(ascii_string(&[p0, p1])), start },
    };
    let s = lab.format_label(offset);
    match which % 3 {
        0 => assert!(s.is_empty(), "label without prefix and style is not empty"),
        1 => assert!(s.as_bytes().len() == 1 && s.as_bytes()[0] == p0, "prefix-only label differs from the prefix"),
        _ => assert!(s.as_bytes().len() == 2 && s.as_bytes()[0] == p0 && s.as_bytes()[1] == p1, "prefix-only label differs from the prefix"),
    }
    kani::cover!(which % 3 == 2, "two-byte prefix reached");
    kani::cover!(true, "end reached");
}

/// Used as a stub of PageLabelStyle::format by the range-lookup obligation (C27_tree.rs):
/// restricts the style to the one variant that obligation builds (asserted) and calls the
/// library's own to_letters for it -- so symex does not walk the Roman/decimal arms for a
/// style value it cannot see is constant after it went through the map.
pub fn format_only_upper_letters(s: &PageLabelStyle, n: u32) -> String {
    assert!(matches!(s, PageLabelStyle::UppercaseLetters), "stub outside model: style other than UppercaseLetters");
    to_letters(n, true)
}
