// C24 — PNG decoding kernels (child module of the sliced graphics/png_decoder.rs).
// Reference: PNG 1.2 section 6 (filter types 0-4 and the Paeth predictor), written as the ENCODER
// (filtering) side; the library's unfilter_row must invert it.
fn spec_paeth(a: u8, b: u8, c: u8) -> u8 {
    let p = a as i32 + b as i32 - c as i32;
    let pa = (p - a as i32).abs();
    let pb = (p - b as i32).abs();
    let pc = (p - c as i32).abs();
    if pa <= pb && pa <= pc { a } else if pb <= pc { b } else { c }
}
fn png_filter_row<const ROWB: usize, const BPP: usize>(ft: u8, raw: &[u8; ROWB], prior: &[u8; ROWB], out: &mut [u8; ROWB]) {
    let mut i = 0;
    while i < ROWB {
        let a = if i >= BPP { raw[i - BPP] } else { 0 };
        let b = prior[i];
        let c = if i >= BPP { prior[i - BPP] } else { 0 };
        let pred = match ft { 0 => 0, 1 => a, 2 => b, 3 => ((a as u16 + b as u16) / 2) as u8, _ => spec_paeth(a, b, c) };
        out[i] = raw[i].wrapping_sub(pred);
        i += 1;
    }
}
fn unfilter_rt<const ROWB: usize, const BPP: usize>() {
    let raw: [u8; ROWB] = kani::any();
    let prior: [u8; ROWB] = kani::any();
    let ft: u8 = kani::any();
    kani::assume(ft <= 4);
    let mut enc = [0u8; ROWB];
    png_filter_row::<ROWB, BPP>(ft, &raw, &prior, &mut enc);
    let sig = [0u8; 8];
    let d = PngDecoder::new(&sig);
    match d.unfilter_row(ft, &enc, &prior, BPP) {
        Ok(v) => {
            assert!(v.len() == ROWB, "unfiltered row has a different length");
            let mut i = 0;
            while i < ROWB { assert!(v[i] == raw[i], "unfilter_row does not invert the PNG filter"); i += 1; }
        }
        Err(e) => { std::mem::forget(e); assert!(false, "a valid filter type is rejected"); }
    }
    std::mem::forget(d);
    kani::cover!(ft == 3, "Average reached");
    kani::cover!(ft == 4, "Paeth reached");
    kani::cover!(true, "end reached");
}
// @ob id=unfilter_r3_bpp1 unwind=8 stubs=fmt tier=quick timeout=600 bound="unfilter_row: every filter type 0-4, every row and previous row of 3 bytes, 1 byte per pixel"
fn unfilter_r3_bpp1<const KF: usize>() { unfilter_rt::<3, 1>() }
// @ob id=unfilter_r4_bpp2 unwind=8 stubs=fmt tier=quick timeout=600 bound="unfilter_row: every filter type, rows of 4 bytes, 2 bytes per pixel (grey+alpha / 16-bit grey)"
fn unfilter_r4_bpp2<const KF: usize>() { unfilter_rt::<4, 2>() }
// @ob id=unfilter_r6_bpp3 unwind=8 stubs=fmt tier=quick timeout=900 bound="unfilter_row: every filter type, rows of 6 bytes, 3 bytes per pixel (RGB)"
fn unfilter_r6_bpp3<const KF: usize>() { unfilter_rt::<6, 3>() }
// @ob id=unfilter_r8_bpp4 unwind=10 stubs=fmt tier=thorough timeout=1200 bound="unfilter_row: every filter type, rows of 8 bytes, 4 bytes per pixel (RGBA)"
fn unfilter_r8_bpp4<const KF: usize>() { unfilter_rt::<8, 4>() }

// @ob id=unfilter_bad_type unwind=6 stubs=fmt tier=quick timeout=300 bound="unfilter_row with every filter type byte 5..=255 on a 2-byte row: error, no panic"
fn unfilter_bad_type<const KF: usize>() {
    let ft: u8 = kani::any();
    kani::assume(ft > 4);
    let row: [u8; 2] = kani::any();
    let prior: [u8; 2] = kani::any();
    let sig = [0u8; 8];
    let d = PngDecoder::new(&sig);
    let r = d.unfilter_row(ft, &row, &prior, 1);
    assert!(r.is_err(), "an undefined PNG filter type is accepted");
    std::mem::forget(r);
    std::mem::forget(d);
    kani::cover!(true, "end reached");
}

// @ob id=paeth_all tier=quick timeout=300 bound="paeth_predictor on all 2^24 (a, b, c)"
fn paeth_all<const KF: usize>() {
    let a: u8 = kani::any();
    let b: u8 = kani::any();
    let c: u8 = kani::any();
    assert!(paeth_predictor(a, b, c) == spec_paeth(a, b, c), "Paeth predictor differs from PNG 1.2 section 6.6");
    kani::cover!(true, "end reached");
}

// @ob id=alpha_split unwind=8 tier=quick timeout=600 bound="separate_alpha: 3 grey+alpha pixels / 2 RGBA pixels / 6 bytes of a colour type without alpha, all values"
fn alpha_split<const KF: usize>() {
    let px: [u8; 8] = kani::any();
    let which: u8 = kani::any();
    kani::assume(which < 3);
    let sig = [0u8; 8];
    let mut d = PngDecoder::new(&sig);
    if which == 0 {
        d.color_type = PngColorType::GrayscaleAlpha;
        let (g, a) = d.separate_alpha(&px[..6]);
        let a = a.expect("alpha plane missing");
        assert!(g.len() == 3 && a.len() == 3, "plane sizes differ from the pixel count");
        assert!(g[0] == px[0] && g[1] == px[2] && g[2] == px[4] && a[0] == px[1] && a[1] == px[3] && a[2] == px[5], "grey/alpha samples end up in the wrong plane or pixel");
    } else if which == 1 {
        d.color_type = PngColorType::RgbAlpha;
        let (c, a) = d.separate_alpha(&px);
        let a = a.expect("alpha plane missing");
        assert!(c.len() == 6 && a.len() == 2, "plane sizes differ from the pixel count");
        assert!(c[0] == px[0] && c[1] == px[1] && c[2] == px[2] && c[3] == px[4] && c[4] == px[5] && c[5] == px[6] && a[0] == px[3] && a[1] == px[7], "RGB/alpha samples end up in the wrong plane or pixel");
    } else {
        d.color_type = PngColorType::Rgb;
        let (c, a) = d.separate_alpha(&px[..6]);
        assert!(a.is_none() && c.len() == 6 && c[0] == px[0] && c[5] == px[5], "a colour type without alpha is altered");
    }
    std::mem::forget(d);
    kani::cover!(which == 0, "grey+alpha reached");
    kani::cover!(which == 1, "RGBA reached");
    kani::cover!(true, "end reached");
}

// @ob id=chunk_reader unwind=6 stubs=fmt tier=quick timeout=600 bound="read_chunk on every 20-byte buffer at every position 0..=20 (declared chunk length is any u32), then process_ihdr on every 13-byte IHDR body: value or error, slices in bounds"
fn chunk_reader<const KF: usize>() {
    let buf: [u8; 20] = kani::any();
    let mut d = PngDecoder::new(&buf);
    let pos: usize = kani::any();
    kani::assume(pos <= 20);
    d.pos = pos;
    let r = d.read_chunk();
    if let Ok((_t, data)) = &r {
        let declared = u32::from_be_bytes([buf[pos], buf[pos + 1], buf[pos + 2], buf[pos + 3]]) as usize;
        assert!(data.len() == declared, "chunk data length differs from the declared length");
        assert!(d.pos == pos + 12 + declared && d.pos <= 20, "reader position is not past length + type + data + CRC");
    }
    std::mem::forget(r);
    let ihdr: [u8; 13] = kani::any();
    let r2 = d.process_ihdr(&ihdr);
    if r2.is_ok() {
        assert!(d.width == u32::from_be_bytes([ihdr[0], ihdr[1], ihdr[2], ihdr[3]]) && d.bit_depth == ihdr[8], "IHDR fields are read from the wrong bytes");
    }
    std::mem::forget(r2);
    std::mem::forget(d);
    kani::cover!(true, "end reached");
}

// @ob id=color_types unwind=4 stubs=fmt tier=quick timeout=300 bound="PngColorType::from_byte on every byte: exactly 0, 2, 3, 4, 6 are colour types (PNG 1.2 section 4.1.1); samples per pixel 1 / 3 / 2 / 4 for grey / RGB / grey+alpha / RGBA (palette not asserted: the decoder counts it after expansion); has_alpha exactly for 4 and 6"
fn color_types<const KF: usize>() {
    let b: u8 = kani::any();
    let r = PngColorType::from_byte(b);
    let valid = b == 0 || b == 2 || b == 3 || b == 4 || b == 6;
    match &r {
        Ok(ct) => {
            assert!(valid, "an undefined colour type byte is accepted");
            let want = match b { 0 => 1, 2 => 3, 4 => 2, 6 => 4, _ => ct.channels() };
            assert!(ct.channels() == want, "samples per pixel differ from the PNG specification");
            assert!(ct.has_alpha() == (b == 4 || b == 6), "alpha presence differs from the PNG specification");
        }
        Err(_) => assert!(!valid, "a defined colour type is rejected"),
    }
    std::mem::forget(r);
    kani::cover!(b == 6, "RGBA reached");
    kani::cover!(b == 5, "undefined type reached");
    kani::cover!(true, "end reached");
}
