// C08 — bounded decoding respects its limit and agrees with unbounded decoding
// (child module of the sliced parser/filters.rs).  `max: usize` is fully symbolic in every
// obligation, so "limit = decoded length - 1 / exactly / + 1" are all inside the query.
use crate::verif_known as known;

fn eq_vec(a: &[u8], b: &[u8]) -> bool {
    if a.len() != b.len() {
        return false;
    }
    let mut i = 0;
    while i < a.len() {
        if a[i] != b[i] {
            return false;
        }
        i += 1;
    }
    true
}

/// the C08 contract between one bounded and one unbounded result
fn contract(bounded: crate::parser::ParseResult<Vec<u8>>, unbounded: crate::parser::ParseResult<Vec<u8>>, max: usize) {
    match (&bounded, &unbounded) {
        (Ok(b), Ok(u)) => {
            assert!(b.len() <= max, "bounded decoding returned more bytes than the limit");
            assert!(eq_vec(b, u), "bounded and unbounded decoding disagree");
        }
        (Ok(b), Err(_)) => {
            assert!(b.len() <= max, "bounded decoding returned more bytes than the limit");
            assert!(false, "bounded decoding succeeds where unbounded decoding fails");
        }
        (Err(_), Ok(u)) => {
            assert!(u.len() > max, "a stream that decodes fully within the limit is rejected by bounded decoding");
        }
        (Err(_), Err(_)) => {}
    }
    kani::cover!(matches!((&bounded, &unbounded), (Ok(_), Ok(_))), "both succeed");
    kani::cover!(matches!((&bounded, &unbounded), (Err(_), Ok(_))), "limit hit");
    std::mem::forget(bounded);
    std::mem::forget(unbounded);
}

// @ob id=hex_limit unwind=7 unwindset="decode_ascii_hex_with_limit.0:4" stubs=fmt,vec tier=quick timeout=1200 mem=24 bound="ASCIIHex: every 4-byte input, every limit in usize"
fn hex_limit<const KF: usize>() {
    let buf: [u8; 4] = kani::any();
    let max: usize = kani::any();
    let b = decode_ascii_hex_with_limit(&buf, max);
    let u = decode_ascii_hex(&buf);
    contract(b, u, max);
    kani::cover!(max == 1, "limit 1 reached");
    kani::cover!(true, "end reached");
}

// ASCII85: N arbitrary bytes followed by '~>'
fn a85_limit_n<const N: usize, const E: usize, const DIGITS_ONLY: bool>() {
    let d: [u8; N] = kani::any();
    let max: usize = kani::any();
    let mut enc = [0u8; E];
    let mut i = 0;
    while i < N {
        if DIGITS_ONLY { kani::assume(d[i] >= b'!' && d[i] <= b'u'); }
        enc[i] = d[i];
        i += 1;
    }
    enc[N] = b'~';
    enc[N + 1] = b'>';
    let b = decode_ascii85_with_limit(&enc, max);
    let u = decode_ascii85(&enc);
    contract(b, u, max);
    kani::cover!(true, "end reached");
}
// @ob id=a85_limit_d2 unwind=6 unwindset="decode_ascii85_with_limit.0:4" stubs=fmt,vec tier=quick timeout=1500 mem=28 bound="ASCII85: a final partial group of 2 arbitrary digits + '~>', every limit in usize"
fn a85_limit_d2<const KF: usize>() { a85_limit_n::<2, 4, true>() }
// @ob id=a85_limit_d3 unwind=7 unwindset="decode_ascii85_with_limit.0:5" stubs=fmt,vec tier=quick timeout=1500 mem=28 bound="ASCII85: a final partial group of 3 arbitrary digits + '~>', every limit in usize"
fn a85_limit_d3<const KF: usize>() { a85_limit_n::<3, 5, true>() }

// RunLength: runs of at most 4 bytes (length byte in 0..=3, 253..=255 or 128) so that the
// repeat loop stays within the unwinding bound
fn short_run(b: u8) -> bool { b <= 3 || b >= 253 || b == 128 }
// @ob id=rle_limit unwind=10 stubs=fmt,vec tier=quick timeout=1500 mem=28 bound="RunLength: every 5-byte input whose length bytes denote runs of at most 4 bytes, every limit in usize"
fn rle_limit<const KF: usize>() {
    let buf: [u8; 5] = kani::any();
    let max: usize = kani::any();
    // every position can be a length byte depending on the preceding runs: constrain all that can
    kani::assume(short_run(buf[0]));
    kani::assume(short_run(buf[1]) && short_run(buf[2]) && short_run(buf[3]) && short_run(buf[4]));
    let b = decode_run_length_with_limit(&buf, max);
    let u = decode_run_length(&buf);
    contract(b, u, max);
    kani::cover!(max == 4, "limit 4 reached");
    kani::cover!(true, "end reached");
}

// the two primitives every bounded decoder is built from
// @ob id=bounded_primitives unwind=6 stubs=fmt,vec tier=quick timeout=600 bound="push_bounded / extend_bounded on a vector of 0..=3 bytes with a 0..=3-byte extension, every limit in usize: never exceed the limit, never refuse what fits"
fn bounded_primitives<const KF: usize>() {
    let n: usize = kani::any();
    kani::assume(n <= 3);
    let mut v: Vec<u8> = Vec::new();
    let mut i = 0;
    while i < n { v.push(i as u8); i += 1; }
    let max: usize = kani::any();
    kani::assume(n <= max); // representation invariant of every bounded decoder: never beyond the limit
    let ext: [u8; 3] = kani::any();
    let m: usize = kani::any();
    kani::assume(m <= 3);
    let which: bool = kani::any();
    if which {
        let r = push_bounded(&mut v, ext[0], max);
        match &r {
            Ok(()) => assert!(n < max && v.len() == n + 1 && v[n] == ext[0], "push_bounded accepted a byte beyond the limit or did not append it"),
            Err(_) => assert!(n >= max && v.len() == n, "push_bounded refused a byte that fits"),
        }
        std::mem::forget(r);
    } else {
        let r = extend_bounded(&mut v, &ext[..m], max);
        match &r {
            Ok(()) => assert!(n + m <= max && v.len() == n + m, "extend_bounded accepted bytes beyond the limit or did not append them"),
            Err(_) => assert!(n + m > max && v.len() == n, "extend_bounded refused bytes that fit"),
        }
        std::mem::forget(r);
    }
    assert!(v.len() <= max || v.len() == n, "vector grew past the limit");
    kani::cover!(which && n == max, "push at the limit reached");
    kani::cover!(!which && n + m == max, "extend exactly to the limit reached");
    kani::cover!(true, "end reached");
}

// unbounded decoding is bounded decoding with the documented ceiling: the one-step fact that
// makes "never more than the decompression-bomb ceiling" hold for outputs of any size
// @ob id=ceiling_step unwind=6 stubs=fmt,vec tier=quick timeout=600 bound="MAX_DECOMPRESSED_SIZE is 256 MiB and a vector already holding `len` bytes with len >= limit refuses one more byte / one more slice (symbolic len through a length-only vector model is not possible: checked at limit = 0..=3 and by the generic limit obligations)"
fn ceiling_step<const KF: usize>() {
    assert!(MAX_DECOMPRESSED_SIZE == 256 * 1024 * 1024, "documented ceiling changed");
    let max: usize = kani::any();
    kani::assume(max <= 3);
    let mut v: Vec<u8> = Vec::new();
    let mut i = 0;
    while i < max { v.push(0); i += 1; }
    let r = push_bounded(&mut v, 1, max);
    assert!(r.is_err(), "a full buffer accepts another byte");
    std::mem::forget(r);
    let r2 = extend_bounded(&mut v, &[1], max);
    assert!(r2.is_err(), "a full buffer accepts another slice");
    std::mem::forget(r2);
    kani::cover!(max == 3, "limit 3 reached");
    kani::cover!(true, "end reached");
}
