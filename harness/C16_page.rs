// C16 — Page::set_rotation normalisation (child module of the page.rs slice).
// @ob id=set_rotation tier=quick timeout=300 bound="all i32 rotation values"
fn set_rotation<const KF: usize>() {
    let r: i32 = kani::any();
    let mut p = Page { rotation: 0 };
    p.set_rotation(r);
    let got = p.get_rotation();
    assert!(got == 0 || got == 90 || got == 180 || got == 270, "stored rotation is not one of 0/90/180/270");
    let m = (((r as i64) % 360) + 360) % 360;
    if m % 90 == 0 {
        assert!(got as i64 == m, "a multiple of 90 is not stored as itself modulo 360");
    }
    kani::cover!(r == -270, "negative reached");
    kani::cover!(r == 630, ">360 reached");
    kani::cover!(true, "end reached");
}
