#!/usr/bin/env python3
"""Writes seeded/<id>/meta.json from the sub-agent's meta (meta.agent.json), my confirmation log and the
detection results table below (filled from tools/try_seed.sh runs)."""
import json, os
here = os.path.dirname(os.path.dirname(os.path.abspath(__file__)))
# id -> (property broken, check it was run against, exit code, what caught it / why missed)
RESULTS = {
 "C25-A": ("C25", "C25", 1, "macroman_encode_table: U+100C4 encodes to 0x80"),
 "C25-B": ("C25", "C25", 1, "winansi_decode_table: byte 0xA0"),
 "C27-A": ("C27", "C27", 1, "roman_lower: n = 831 (first runs ended in exit 2: CBMC crashed on the rewritten to_roman's str::repeat; fixed by a small-count str::repeat model)"),
 "C27-B": ("C27", "C27", 0, "MISSED: the written /PageLabels number tree (to_dict/from_dict) is outside the claim"),
 "C29-A": ("C29", "C29", 1, "get_c4_m4: recency order differs from the abstract LRU order"),
 "C29-B": ("C29", "C29", 1, "put_c3_m2 / put_c4_m1..3: order queue length differs from the number of entries"),
 "C16-A": ("C16", "C16", 1, "rotated_page: output rotation is not original + requested (mod 360)"),
 "C16-B": ("C16", "C16", 1, "indices_list_t3: List [2,2,1] not returned as requested"),
 "C01-A": ("C01", "C01", 0, "MISSED: LZWDecode is not decided (harness/C01_lzw_attempt.rs.txt: CBMC crashed after 1540 s at 30 GB)"),
 "C01-B": ("C01", "C01", 1, "read_field_any: 9-byte field, attempt to subtract with overflow"),
 "C01-C": ("C01", "C01", 1, "name_token: '/' '#' 'f' '3' truncated tail, slice index past the end"),
 "C04-A": ("C04", "C04", 0, "MISSED: the /Prev-chain merge loop is not decided (DESIGN.md 10.6)"),
 "C04-C": ("C20", "-", None, "MISSED: C20 is not applicable (DESIGN.md 10.6); no check to run"),
 "C23-A": ("C23", "C23", 1, "perm_from_flags / perm_bits_setters"),
 "C23-B": ("C23", "C23", 1, "objkey_rc4_128 / objkey_aes_128: object number 8388608"),
 "C23-C": ("C24", "C24", 1, "unfilter_r6_bpp3 (Average filter)"),
 "C23-D": ("C24", "C24", 1, "alpha_split (grey+alpha plane sizes)"),
}
extra = os.path.join(here, "seeded", "results_extra.json")
if os.path.exists(extra):
    for k, v in json.load(open(extra)).items():
        RESULTS[k] = tuple(v)
for sid in sorted(os.listdir(os.path.join(here, "seeded"))):
    d = os.path.join(here, "seeded", sid)
    if not os.path.isdir(d):
        continue
    agent = {}
    try:
        agent = json.load(open(os.path.join(d, "meta.agent.json")))
    except Exception:
        pass
    confirm = open(os.path.join(d, "confirm.log")).read() if os.path.exists(os.path.join(d, "confirm.log")) else ""
    r = RESULTS.get(sid)
    meta = {
        "id": sid,
        "property_broken": r[0] if r else agent.get("property"),
        "what_it_breaks": agent.get("what_it_breaks"),
        "needs_to_manifest": agent.get("needs_to_manifest"),
        "files_touched": agent.get("files_touched"),
        "author": "independent sub-agent given only the property record and a scratch worktree",
        "confirmed_by_me": {
            "how": "tools/confirm_seed.sh in the scratch worktree: demo.rs as an integration test on the clean tree (must pass), git apply patch.diff, demo again (must fail), cargo test --lib <module filter> with the patch (must pass)",
            "log": confirm.strip().splitlines(),
            "sub_agent_also_ran": agent.get("tests_run"),
        },
        "run_against_check": ({"check": r[1], "command": "tools/try_seed.sh seeded/%s/patch.diff %s" % (sid, r[1]), "exit": r[2], "outcome": r[3]} if r else "pending"),
    }
    json.dump(meta, open(os.path.join(d, "meta.json"), "w"), indent=1)
print("meta written for", len(os.listdir(os.path.join(here, "seeded"))), "entries")
