#!/bin/bash
# Runs the repository's pinned test suite (guard OFF) and compares with /root/.vp/BASELINE.json's stable_pass list.
# usage: run_suite.sh [repo_dir]   (default /repo)  -> exit 0 iff every stable-pass test passes
set -u
REPO=${1:-/repo}
OUT=${SUITE_OUT:-/var/tmp/verif-suite}
mkdir -p "$OUT"
cd "$REPO" || exit 2
export CARGO_NET_OFFLINE=true
cargo nextest run --workspace --no-fail-fast --tool-config-file pb:/w/lib/nextest.toml --profile pb --test-threads 8 --offline > "$OUT/nextest.log" 2>&1
J=$(find "$REPO/target/nextest/pb" -name junit.xml | head -1)
python3 - "$J" <<'PY'
import json, sys, xml.etree.ElementTree as ET
b = json.load(open('/root/.vp/BASELINE.json'))
stable = b['stable_pass']
if isinstance(stable, str):
    import ast; stable = ast.literal_eval(stable)
root = ET.parse(sys.argv[1]).getroot()
passed, failed = set(), set()
for tc in root.iter('testcase'):
    tid = (tc.get('classname') or '') + '::' + (tc.get('name') or '')
    if tc.find('failure') is not None or tc.find('error') is not None or tc.find('flakyFailure') is not None or tc.find('rerunFailure') is not None:
        failed.add(tid)
    elif tc.find('skipped') is None:
        passed.add(tid)
passed -= failed
missing = [t for t in stable if t not in passed]
print("stable=%d passed=%d failed=%d stable_not_passing=%d" % (len(stable), len(passed), len(failed), len(missing)))
for t in missing[:40]:
    print("  NOT PASSING:", t)
sys.exit(1 if missing else 0)
PY
