#!/bin/bash
# usage: confirm_seed.sh <worktree> <seed_dir> <seed_id> <lib-test-filter>
# Confirms, in the scratch worktree, that (1) the demo passes on the clean tree, (2) the patch applies and compiles,
# (3) the demo fails with the patch, (4) the library's unit tests matching the filter still pass with the patch.
# Then copies patch.diff, demo.rs, meta.json to /verif/seeded/<seed_id>/ with a confirm.log.
set -u
WT=$1; SD=$2; ID=$3; FILTER=${4:-}
export CARGO_NET_OFFLINE=true CARGO_TARGET_DIR=$WT/target
OUT=/verif/seeded/$ID; mkdir -p $OUT
LOG=$OUT/confirm.log; : > $LOG
cd $WT || exit 2
git checkout -q -- . ; rm -f oxidize-pdf-core/tests/zz_seed_demo.rs
cp $SD/demo.rs oxidize-pdf-core/tests/zz_seed_demo.rs
echo "== demo on clean tree" >> $LOG
(cd oxidize-pdf-core && cargo test --offline -p oxidize-pdf --test zz_seed_demo 2>&1 | grep -E "^test result|^test .* (ok|FAILED)|error" | head -20) >> $LOG
clean_ok=$(grep -c "test result: ok" $LOG)
git apply $SD/patch.diff || { echo "PATCH DOES NOT APPLY" >> $LOG; exit 2; }
echo "== demo with patch" >> $LOG
(cd oxidize-pdf-core && cargo test --offline -p oxidize-pdf --test zz_seed_demo 2>&1 | grep -E "^test result|^test .* (ok|FAILED)|error(\[|:)" | head -20) >> $LOG
patched_fail=$(grep -c "test result: FAILED" $LOG)
echo "== lib tests with patch (filter: $FILTER)" >> $LOG
(cd oxidize-pdf-core && cargo test --offline -p oxidize-pdf --lib $FILTER 2>&1 | grep -E "^test result|FAILED|error(\[|:)" | head -10) >> $LOG
git checkout -q -- . ; rm -f oxidize-pdf-core/tests/zz_seed_demo.rs
cp $SD/patch.diff $SD/demo.rs $OUT/; cp $SD/meta.json $OUT/meta.agent.json
echo "clean_ok=$clean_ok patched_fail=$patched_fail" >> $LOG
echo "$ID: clean_ok=$clean_ok patched_fail=$patched_fail"
