#!/bin/bash
# usage: try_seed.sh <patch.diff> <Cxx> [vcheck args...]   -- applies a seeded change to /repo, runs the check, reverts.
# /repo must have a clean working tree (commit fixes first).
set -u
P=$1; C=$2; shift 2
cd /repo || exit 2
if [ -n "$(git status --porcelain --untracked-files=no)" ]; then echo "repo dirty"; exit 2; fi
git apply "$P" || { echo "patch does not apply"; exit 2; }
cd /verif && ./vcheck "$C" "$@"; rc=$?
git -C /repo checkout -- .
echo "seed $P on $C -> exit $rc"
exit $rc
