#!/bin/bash
# usage: try_seed.sh <patch.diff> <Cxx> [vcheck args...]
# Runs a check against a seeded change WITHOUT touching /repo: the patch is applied in a throw-away
# git worktree of /repo's HEAD and the check slices from there (VERIF_REPO); evidence goes to a scratch dir.
# (Equivalent to `git -C /repo apply`, run, `git -C /repo checkout -- .` for these checks, which only read
# $VERIF_REPO/oxidize-pdf-core/src, but safe to run while other checks use /repo.)
set -u
P=$(readlink -f "$1"); C=$2; shift 2
W=/var/tmp/seedrepo-$$
git -C /repo worktree add -q --detach "$W" HEAD || exit 2
( cd "$W" && git apply "$P" ) || { echo "patch does not apply"; git -C /repo worktree remove --force "$W"; exit 2; }
cd /verif && VERIF_REPO="$W" VERIF_EVIDENCE=/var/tmp/seed-evidence-$$ ./vcheck "$C" "$@"; rc=$?
git -C /repo worktree remove --force "$W"
rm -rf /var/tmp/seed-evidence-$$
echo "seed $P on $C -> exit $rc"
exit $rc
