#!/bin/bash
# Runs every claimed check's quick command on /repo, one after the other (evidence is written by the checks).
cd /verif
for p in $(python3 -c "import json;print(' '.join(c['property_id'] for c in json.load(open('MANIFEST.json'))['checks']))"); do
  s=$(date +%s)
  ./vcheck $p --tier ${1:-quick} > /var/tmp/runall_$p.log 2>&1
  rc=$?
  echo "$p exit=$rc wall=$(( $(date +%s) - s ))s $(grep -c KNOWN-FINDING /var/tmp/runall_$p.log) known-findings"
done
