#!/usr/bin/env python3
"""Regenerates MANIFEST.json from props/*.py (claimed checks) and the NOT_APPLICABLE table below."""
import importlib, json, os, sys
here = os.path.dirname(os.path.dirname(os.path.abspath(__file__)))
sys.path.insert(0, here)

NOT_APPLICABLE = {
 "C02": "whole-document write->read round trip: Document::save -> PdfReader executes f64 formatting, zlib, std HashMap (hashbrown SIMD probing), buffered file I/O and an independent reader; none of it is encodable for CBMC within this machine (DESIGN.md 2: two HashMap inserts do not finish in 15 min). Operand-level kernels it rests on are decided under C09/C21.",
 "C05": "needs whole-document write/read plus MD5/SHA-2/AES key schedules over symbolic data; hashing loops and block ciphers are beyond bit-blasting reach here (RC4 alone: 34.7 M clauses for 2 data bytes). The dropped /Encrypt entry in write_xref_stream is visible by reading but is not a solver question.",
 "C06": "requires the output of an independent implementation (qpdf) as input and whole-file decryption; no symbolic formulation within reach.",
 "C11": "extract_from_page is a ~6k-line state machine over f64 matrices, font dictionaries in HashMaps and reading-order sorting of heap fragments; no separable kernel decides 'each glyph exactly once'.",
 "C12": "inputs are multi-hundred-kilobyte font binaries, table walks are loops over thousands of glyphs, outline equality needs an independent font parser.",
 "C13": "same inputs as C12 plus whole-document write and text extraction.",
 "C14": "chunkers build/join/split heap Strings whose lengths depend on symbolic content and call a dyn TokenCounter; every step is a symbolic-size memory move (DESIGN.md 2), and ElementGraph is not separable from the owned-String Element enum.",
 "C15": "C02's obstacles (whole-document write/read) plus C14's (heap-string chunking).",
 "C17": "whole-file edit histories (append-only prefix, revision chain validity in two readers); only the serializer kernels are reachable and those are decided under C03/C09.",
 "C18": "flatten_page_tree/load_page_at_index resolve every node through PdfReader (I/O + HashMap dictionaries); inheritance is not a separable function.",
 "C19": "equality of two whole-file opens (intact vs damaged); the header scanner's panic-freedom is under C01 and the latest-wins rule under C04.",
 "C20": "the nondeterminism at stake is hash-map iteration order in the writer's recursive serializer; encoded with map order as an input (array map, both insertion orders) the Dictionary arm of write_object_value_to_buffer did not finish: the recursive method is unwound to the recursion bound at every Array/Dictionary call site with a symbolic variant (11 arms each) and std's sort_by_key is symex-heavy -- no verdict in 1500 s even with concrete keys. The known unsorted emission in write_xref_stream is visible by reading but is not a solver verdict.",
 "C22": "quantifies over interleavings of std::thread workers, an mpsc dispatcher and a collector; Kani does not model threads, and a sequentialised shim would decide one schedule, not the quantifier.",
 "C28": "link consistency is a property of objects emitted through write_outline_item -> write_object (object-id allocation, HashMap dictionaries); no separable kernel decides first/last/next/prev/parent consistency or the sign convention.",
}
PENDING = "check not built yet in this session (planned as CLAIM(kernel) in DESIGN.md section 5); listed here only until its obligations are registered"

def main():
    props = [json.loads(l) for l in open(os.path.join(here, "properties.jsonl"))]
    checks, served = [], []
    na = []
    for p in props:
        pid = p["id"]
        path = os.path.join(here, "props", pid + ".py")
        if os.path.exists(path):
            mod = importlib.import_module("props." + pid)
            m = mod.MANIFEST
            served.append(pid)
            checks.append({
                "property_id": pid,
                "quick_cmd": "./vcheck %s --tier quick" % pid,
                "thorough_cmd": "./vcheck %s --tier thorough" % pid,
                "evidence_file": "evidence/%s.json" % pid,
                "replay_cmd_template": "./vcheck %s --replay {path}" % pid,
                "engine": "vcheck",
                "level_claimed": {"category": "model_checking", "text": m["text"], "design_ref": "DESIGN.md section 5, " + pid},
                "level_note": m["note"],
                "technique": m.get("technique", "bounded symbolic execution of the sliced Rust source (Kani 0.68 -> CBMC 6.11), SAT-decided per obligation; counterexamples replayed natively"),
            })
        elif pid in NOT_APPLICABLE:
            na.append({"property_id": pid, "reason": NOT_APPLICABLE[pid]})
        else:
            na.append({"property_id": pid, "reason": PENDING})
    man = {
        "version": 1,
        "setup_cmd": "python3 tools/setup_check.py",
        "hooks": {
            "guard": "oxidizepdf_verif",
            "enable": "no source hooks are used: every check slices /repo's current sources into a scratch Kani crate (DESIGN.md 3.1); the guard name is reserved but unused",
            "baseline_off_cmd": "/verif/tools/run_suite.sh /repo",
            "source_commits": [],
            "add_only": True,
        },
        "engines": [{"name": "vcheck", "path": "vcheck", "serves_properties": served,
                     "kind_free_text": "slice-and-re-root of /repo sources into a scratch crate; one Kani 0.68 / CBMC 6.11 / CaDiCaL query per obligation; native concrete-playback replay of counterexamples"}],
        "checks": checks,
        "notes": "exit 0 = all obligations discharged (listed known findings printed as KNOWN-FINDING); exit 1 = VIOLATION (solver counterexample reproduced natively); exit 2 = inconclusive (timeout/memory/vacuous), never reported as a pass. Bounds per obligation are in each evidence file.",
        "not_applicable": na,
    }
    with open(os.path.join(here, "MANIFEST.json"), "w") as f:
        json.dump(man, f, indent=1)
    print("claimed:", served, "n/a:", [x["property_id"] for x in na])

main()
