#!/usr/bin/env python3
"""setup_cmd: nothing is pre-built (every check regenerates its scratch crate from /repo's
working tree); this only verifies that the offline tool chain the checks need is present and
regenerates the Annex D spec tables (a pure function of engine/spec/gen_annex_d.py)."""
import os, shutil, subprocess, sys
here = os.path.dirname(os.path.dirname(os.path.abspath(__file__)))
ok = True
for tool in ("cargo", "cbmc", "goto-cc"):
    if shutil.which(tool) is None:
        print("missing tool:", tool); ok = False
try:
    out = subprocess.run(["cargo", "kani", "--version"], capture_output=True, text=True, env=dict(os.environ, CARGO_NET_OFFLINE="true"))
    print(out.stdout.strip())
    ok = ok and out.returncode == 0
except Exception as e:
    print("cargo kani not runnable:", e); ok = False
r = subprocess.run([sys.executable, os.path.join(here, "engine/spec/gen_annex_d.py"), os.path.join(here, "engine/spec/annex_d.rs")])
ok = ok and r.returncode == 0
os.makedirs(os.environ.get("VERIF_WORK", "/var/tmp/verif-work"), exist_ok=True)
sys.exit(0 if ok else 1)
