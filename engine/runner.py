"""Runs the obligations of one property: assemble -> native closure -> Kani codegen ->
one CBMC query per obligation (memory-aware pool) -> classify -> replay -> evidence."""
from __future__ import annotations

import importlib
import json
import os
import re
import resource
import shutil
import signal
import subprocess
import sys
import threading
import time
from typing import Dict, List, Optional

from . import assemble

VERIF = assemble.VERIF
WORK_ROOT = os.environ.get("VERIF_WORK", "/var/tmp/verif-work")
EVID = os.environ.get("VERIF_EVIDENCE", os.path.join(assemble.VERIF, "evidence"))
TOTAL_MEM_GB = int(os.environ.get("VERIF_MEM_GB", "52"))
MAX_JOBS = int(os.environ.get("VERIF_JOBS", "14"))


def load_known() -> dict:
    with open(os.path.join(VERIF, "known_findings.json")) as f:
        return json.load(f)


def sh_env():
    env = dict(os.environ)
    env["CARGO_NET_OFFLINE"] = "true"
    env.pop("RUSTFLAGS", None)
    env.pop("RUSTUP_TOOLCHAIN", None)
    env["CARGO_TERM_COLOR"] = "never"
    return env


class Job:
    def __init__(self, ob, suffix: str, kind: str, finding: Optional[dict] = None):
        self.ob = ob
        self.suffix = suffix          # "__main" or "__kfN"
        self.kind = kind              # "main" | "kf"
        self.finding = finding
        self.status = "PENDING"       # SUCCESS VIOLATION INCONCLUSIVE
        self.reason = ""
        self.failed_checks: List[dict] = []
        self.covers = (0, 0)
        self.checks_total = 0
        self.stats: Dict[str, float] = {}
        self.wall = 0.0
        self.log_path = ""
        self.replay: Optional[dict] = None
        self.unwindset_resolved = ""
        self.playback_tests: List[dict] = []

    @property
    def name(self):
        return self.ob.id + self.suffix


def _limit(mem_gb: int):
    def f():
        os.setsid()
        lim = mem_gb * 1024 ** 3
        resource.setrlimit(resource.RLIMIT_AS, (lim, lim))
    return f


def kani_flags(spec: dict) -> List[str]:
    fl = []
    if spec.get("stubbing"):
        fl += ["-Z", "stubbing"]
    return fl


_loop_cache: Dict[str, str] = {}


def resolve_unwindset(ob, asm, tk, fq: str) -> str:
    """`fn_name.N:K,...` (pretty function name or its last path segment(s)) -> CBMC's mangled
    loop ids, discovered with `cbmc --show-loops` on this harness' goto binary."""
    want = ob.unwindset
    if all(e.strip().startswith("_R") or e.strip().startswith("memcmp") for e in want.split(",")):
        return want
    key = fq
    if key not in _loop_cache:
        cmd = ["cargo", "kani", "--target-dir", tk, "--harness", fq, "--exact"] + kani_flags(asm.spec) + \
              ["-Z", "unstable-options", "--output-format", "old", "--cbmc-args", "--show-loops"]
        p = subprocess.run(cmd, cwd=asm.crate_dir, env=sh_env(), capture_output=True, text=True, timeout=600)
        _loop_cache[key] = p.stdout + p.stderr
    loops = re.findall(r"^Loop (\S+)\.(\d+):\n\s+file .*? function (.*)$", _loop_cache[key], re.M)
    out = []
    for e in want.split(","):
        e = e.strip()
        if not e:
            continue
        name, _, k = e.rpartition(":")
        fn, _, num = name.rpartition(".")
        if fn.startswith("_R") or "::" not in fn and fn in ("memcmp", "memcpy", "memmove", "memset"):
            out.append(e)
            continue
        seg = re.compile(r"(^|::)" + re.escape(fn) + r"(::<|<|$)")
        hits = [(m, n) for (m, n, pretty) in loops if n == num and seg.search(pretty.strip())]
        if not hits:
            # the named loop does not exist (any more): nothing to bound; every remaining loop
            # falls under the harness-wide unwind value and its unwinding assertion
            continue
        for m, n in hits:
            out.append("%s.%s:%s" % (m, n, k))
    return ",".join(out)


def run_job(job: Job, asm: assemble.Assembly, tk: str, logdir: str, extra_timeout: float = 1.0):
    ob = job.ob
    fq = ob.fq(asm.crate_name, job.suffix)
    if ob.unwindset:
        job.unwindset_resolved = resolve_unwindset(ob, asm, tk, fq)
    log = os.path.join(logdir, job.name + ".log")
    js = os.path.join(logdir, job.name + ".json")
    job.log_path = log
    cmd = ["cargo", "kani", "--target-dir", tk, "--harness", fq, "--exact"] + kani_flags(asm.spec)
    cmd += ["-Z", "unstable-options", "--export-json", js]
    if job.kind == "main":
        # ask for the counterexample in the same solver run (no second, possibly diverging, query)
        cmd += ["-Z", "concrete-playback", "--concrete-playback=print"]
    if ob.raw.get("solver"):
        cmd += ["--solver", ob.raw["solver"]]
    if ob.unwindset and job.unwindset_resolved:
        cmd += ["--cbmc-args", "--unwindset", job.unwindset_resolved]
    t0 = time.time()
    timeout = ob.timeout * extra_timeout
    with open(log, "w") as lf:
        lf.write("$ " + " ".join(cmd) + "\n")
        lf.flush()
        p = subprocess.Popen(cmd, cwd=asm.crate_dir, env=sh_env(), stdout=lf, stderr=subprocess.STDOUT,
                             preexec_fn=_limit(ob.mem_gb))
        try:
            p.wait(timeout=timeout)
            timed_out = False
        except subprocess.TimeoutExpired:
            timed_out = True
            try:
                os.killpg(p.pid, signal.SIGKILL)
            except ProcessLookupError:
                pass
            p.wait()
    job.wall = time.time() - t0
    with open(log, errors="replace") as lf:
        text = lf.read()
    job.playback_tests = extract_playback_tests(text)
    classify(job, text, timed_out, p.returncode, js)


UNWIND_PAT = re.compile(r"unwinding assertion", re.I)


def classify(job: Job, text: str, timed_out: bool, rc: int, js_path: str):
    if timed_out:
        job.status, job.reason = "INCONCLUSIVE", "timeout after %ds" % job.ob.timeout
        return
    m = re.search(r"\*\* (\d+) of (\d+) failed", text)
    if m:
        job.checks_total = int(m.group(2))
    m = re.search(r"\*\* (\d+) of (\d+) cover properties satisfied", text)
    if m:
        job.covers = (int(m.group(1)), int(m.group(2)))
    for k, pat in (("symex_s", r"Runtime Symex: ([\d.e+-]+)s"), ("solver_s", r"Runtime Solver: ([\d.e+-]+)s"),
                   ("decision_s", r"Runtime decision procedure: ([\d.e+-]+)s")):
        vals = re.findall(pat, text)
        if vals:
            job.stats[k] = round(sum(float(v) for v in vals), 3)
    m = re.findall(r"(\d+) variables, (\d+) clauses", text)
    if m:
        job.stats["variables"] = max(int(a) for a, b in m)
        job.stats["clauses"] = max(int(b) for a, b in m)
    m = re.search(r"Verification Time: ([\d.]+)s", text)
    if m:
        job.stats["verification_time_s"] = float(m.group(1))
    # failed checks
    failed = []
    for blk in re.finditer(r"Check \d+: (.+)\n\s+- Status: (FAILURE|UNDETERMINED|ERROR)\n\s+- Description: \"?(.*?)\"?\n\s+- Location: (.*)", text):
        failed.append({"check": blk.group(1), "status": blk.group(2), "description": blk.group(3), "location": blk.group(4).strip()})
    job.failed_checks = failed
    if "VERIFICATION:- SUCCESSFUL" in text:
        if job.kind == "kf" and job.covers[1] and job.covers[0] < job.covers[1]:
            job.status, job.reason = "SUCCESS", "finding's inputs do not occur in this instance"
        elif job.covers[1] and job.covers[0] < job.covers[1]:
            job.status, job.reason = "INCONCLUSIVE", "vacuous: %d of %d covers satisfied" % job.covers
        elif job.covers[1] == 0:
            job.status, job.reason = "INCONCLUSIVE", "no cover property (vacuity witness missing)"
        else:
            job.status = "SUCCESS"
        return
    if "VERIFICATION:- FAILED" in text:
        real = [f for f in failed if f["status"] == "FAILURE" and not UNWIND_PAT.search(f["description"])]
        errs = [f for f in failed if f["status"] == "ERROR"]
        if real:
            job.status, job.reason = "VIOLATION", "; ".join(sorted(set(f["description"] for f in real)))[:400]
        elif errs or "Status: ERROR" in text:
            job.status, job.reason = "INCONCLUSIVE", "CBMC error (out of memory?)"
        elif any(UNWIND_PAT.search(f["description"]) for f in failed):
            job.status, job.reason = "INCONCLUSIVE", "unwinding assertion failed: bound too small"
        else:
            m = re.search(r"CBMC failed with status (\d+)", text)
            if m:
                job.status, job.reason = "INCONCLUSIVE", "CBMC crashed with status %s (memory cap of %d GB or solver abort)" % (m.group(1), job.ob.mem_gb)
            else:
                job.status, job.reason = "INCONCLUSIVE", "failed without a failed check (see log)"
        return
    tail = text[-600:].replace("\n", " | ")
    if "error: could not compile" in text or "error[E" in text:
        job.status, job.reason = "INCONCLUSIVE", "harness crate does not compile under Kani: " + tail
    elif rc in (-9, 137) or "std::bad_alloc" in text or "Out of memory" in text or "memory exhausted" in text.lower():
        job.status, job.reason = "INCONCLUSIVE", "memory cap (%d GB) hit" % job.ob.mem_gb
    else:
        job.status, job.reason = "INCONCLUSIVE", "no verdict (rc=%s): %s" % (rc, tail)


# ----------------------------------------------------------------------
def pool_run(jobs: List[Job], asm, tk, logdir, time_scale=1.0):
    lock = threading.Lock()
    pending = sorted(jobs, key=lambda j: -j.ob.timeout)
    running: List[Job] = []
    mem_used = [0]
    done = threading.Event()

    def weight(job):
        # `mem` is a CAP (RLIMIT_AS, also hit by the kani driver buffering CBMC's output); what a job
        # really holds is well below it, so the pool accounts 60 % of the cap
        return int(job.ob.mem_gb * 0.6) + 1

    def worker(job):
        try:
            run_job(job, asm, tk, logdir, time_scale)
        except Exception as e:  # noqa
            job.status, job.reason = "INCONCLUSIVE", "runner error: %r" % (e,)
        with lock:
            running.remove(job)
            mem_used[0] -= weight(job)
        sys.stderr.write("  [%s] %-44s %-12s %6.1fs %s\n" % (asm.pid, job.name, job.status, job.wall, job.reason[:100]))
        sys.stderr.flush()
        done.set()

    threads = []
    while True:
        with lock:
            while pending and len(running) < MAX_JOBS:
                cand = None
                for j in pending:
                    if mem_used[0] + weight(j) <= TOTAL_MEM_GB or not running:
                        cand = j
                        break
                if cand is None:
                    break
                pending.remove(cand)
                running.append(cand)
                mem_used[0] += weight(cand)
                t = threading.Thread(target=worker, args=(cand,))
                t.start()
                threads.append(t)
            if not pending and not running:
                break
        done.wait(timeout=1.0)
        done.clear()
    for t in threads:
        t.join()


# ----------------------------------------------------------------------
def extract_playback_tests(text: str) -> List[dict]:
    out = []
    for m in re.finditer(r"Concrete playback unit test for `([^`]+)`:\n```\n(.*?)```", text, re.S):
        body = m.group(2)
        cm = re.search(r"/// Check for `(\w+)`: \"+(.*?)\"+\n", body)
        fn = re.search(r"fn (kani_concrete_playback_\w+)\(", body)
        vals = re.findall(r"vec!\[([\d, ]*)\],", body)
        comments = re.findall(r"^\s*// (.*)$", body, re.M)
        out.append({"harness": m.group(1), "check_kind": cm.group(1) if cm else "", "check": cm.group(2) if cm else "",
                    "test_fn": fn.group(1) if fn else "", "test_text": body,
                    "concrete_vals": [[int(x) for x in v.split(",") if x.strip()] for v in vals],
                    "decoded": comments})
    return out


def insert_test(crate_dir: str, module_file_rel: str, test_text: str):
    p = os.path.join(crate_dir, "src", module_file_rel)
    with open(p) as f:
        s = f.read()
    marker = "// ---- generated wrappers ----"
    assert marker in s
    s = s.replace(marker, test_text + "\n" + marker, 1)
    with open(p, "w") as f:
        f.write(s)


def module_file(asm: assemble.Assembly, ob) -> str:
    parts = ob.module_path.split("::")
    cand = os.path.join(*parts) + ".rs"
    if os.path.exists(os.path.join(asm.crate_dir, "src", cand)):
        return cand
    return os.path.join(*parts, "mod.rs")


def native_playback(asm: assemble.Assembly, ob, test_fn: str, test_text: str, workdir: str, release: bool = False):
    rp = os.path.join(workdir, "replay-crate")
    if os.path.exists(rp):
        shutil.rmtree(rp)
    shutil.copytree(asm.crate_dir, rp)
    insert_test(rp, module_file(asm, ob), test_text)
    cmd = ["cargo", "kani", "playback", "-Z", "concrete-playback"] + kani_flags(asm.spec) + ["--", test_fn]
    env = sh_env()
    env["CARGO_TARGET_DIR"] = os.path.join(workdir, "target-playback")
    p = subprocess.run(cmd, cwd=rp, env=env, capture_output=True, text=True, timeout=900)
    out = p.stdout + p.stderr
    reproduced = ("test result: FAILED" in out) and ("1 failed" in out)
    passed = "test result: ok. 1 passed" in out
    m = re.search(r"panicked at [^\n]*\n([^\n]*)", out)
    return {"reproduced": reproduced, "native_passed": passed, "panic": (m.group(0)[:300] if m else ""), "tail": out[-1500:]}


def replay_violation(job: Job, asm, tk, workdir) -> dict:
    """Re-run with concrete playback, then execute natively."""
    ob = job.ob
    fq = ob.fq(asm.crate_name, job.suffix)
    tests = [t for t in job.playback_tests if t["check_kind"] != "cover"]
    if tests:
        return _native_replays(tests, asm, ob, workdir)
    cmd = ["cargo", "kani", "--target-dir", tk, "--harness", fq, "--exact"] + kani_flags(asm.spec)
    cmd += ["-Z", "concrete-playback", "--concrete-playback=print"]
    if ob.unwindset and resolve_unwindset(ob, asm, tk, fq):
        cmd += ["-Z", "unstable-options", "--cbmc-args", "--unwindset", resolve_unwindset(ob, asm, tk, fq)]
    try:
        p = subprocess.run(cmd, cwd=asm.crate_dir, env=sh_env(), capture_output=True, text=True,
                           timeout=max(ob.timeout * 2, 600), preexec_fn=_limit(max(ob.mem_gb, 12)))
    except subprocess.TimeoutExpired:
        return {"reproduced": False, "error": "playback generation timed out"}
    tests = [t for t in extract_playback_tests(p.stdout + p.stderr) if t["check_kind"] != "cover"]
    if not tests:
        return {"reproduced": False, "error": "no concrete playback test produced", "tail": (p.stdout + p.stderr)[-800:]}
    return _native_replays(tests, asm, ob, workdir)


def _native_replays(tests, asm, ob, workdir) -> dict:
    results = []
    for t in tests[:3]:
        r = native_playback(asm, ob, t["test_fn"], t["test_text"], workdir)
        r.update({k: t[k] for k in ("check", "check_kind", "test_fn", "test_text", "concrete_vals", "decoded")})
        results.append(r)
        if r["reproduced"]:
            break
    best = next((r for r in results if r["reproduced"]), results[0])
    best["all"] = [{"check": r["check"], "reproduced": r["reproduced"]} for r in results]
    return best


# ----------------------------------------------------------------------
def run_property(pid: str, tier: str, seed: int, keep: bool = False, only: Optional[List[str]] = None) -> int:
    t0 = time.time()
    mod = importlib.import_module("props." + pid)
    spec = mod.SPEC
    known = load_known()
    workdir = os.path.join(WORK_ROOT, "%s-%s-%d" % (pid, tier, os.getpid()))
    if os.path.exists(workdir):
        shutil.rmtree(workdir)
    os.makedirs(workdir)
    logdir = os.path.join(workdir, "logs")
    os.makedirs(logdir)
    rc = 2
    try:
        rc = _run(pid, spec, known, tier, seed, workdir, logdir, t0, only)
    finally:
        if not keep and not os.environ.get("VERIF_KEEP"):
            shutil.rmtree(workdir, ignore_errors=True)
    return rc


def select(obs, tier, seed, only):
    out = []
    for ob in obs:
        if only and ob.id not in only:
            continue
        if tier == "quick" and ob.tier != "quick":
            continue
        out.append(ob)
    return out


def _run(pid, spec, known, tier, seed, workdir, logdir, t0, only) -> int:
    asm = assemble.Assembly(spec, workdir, known)
    notes: List[str] = []
    try:
        asm.build()
        errs = assemble.close(asm)
    except (assemble.AssemblyError, ValueError) as e:
        return finish(pid, spec, asm, tier, seed, [], t0, fatal="assembly failed: %s" % e)
    if errs:
        msg = "; ".join((e.get("message") or "")[:200] for e in errs[:5])
        return finish(pid, spec, asm, tier, seed, [], t0, fatal="sliced crate does not compile natively: " + msg)
    tk = os.path.join(workdir, "tk")
    cg = subprocess.run(["cargo", "kani", "--only-codegen", "--target-dir", tk] + kani_flags(spec),
                        cwd=asm.crate_dir, env=sh_env(), capture_output=True, text=True)
    if cg.returncode != 0:
        with open(os.path.join(logdir, "codegen.log"), "w") as f:
            f.write(cg.stdout + cg.stderr)
        errl = [l for l in (cg.stdout + cg.stderr).splitlines() if l.startswith("error")]
        return finish(pid, spec, asm, tier, seed, [], t0, fatal="Kani codegen failed: " + " | ".join(errl[:6]))
    if spec.get("only_obligations") and not only:
        only = list(spec["only_obligations"])
    obs = select(asm.obligations, tier, seed, only)
    jobs: List[Job] = []
    for ob in obs:
        if ob.raw.get("main", "yes") != "no":
            # (main=no: every input of this instance is a listed known finding; only its witness runs)
            jobs.append(Job(ob, "__main", "main"))
        for i, kf in enumerate(asm.known_for(ob.kfgroup), start=1):
            jobs.append(Job(ob, "__kf%d" % i, "kf", kf))
    scale = float(os.environ.get("VERIF_TIME_SCALE", "1.0"))
    pool_run(jobs, asm, tk, logdir, scale)
    # replay violations of main harnesses
    for j in jobs:
        if j.kind == "main" and j.status == "VIOLATION":
            j.replay = replay_violation(j, asm, tk, workdir)
    # keep logs of anything that is not a plain success
    keepdir = os.path.join(EVID, "logs", pid)
    shutil.rmtree(keepdir, ignore_errors=True)
    for j in jobs:
        if (j.kind == "main" and j.status != "SUCCESS") or (j.kind == "kf" and j.status == "INCONCLUSIVE"):
            os.makedirs(keepdir, exist_ok=True)
            try:
                with open(j.log_path, errors="replace") as f:
                    t = f.read()
                t = re.sub(r"Check \d+: .+\n\s+- Status: SUCCESS\n\s+- Description: .*\n\s+- Location: .*\n\n?", "", t)
                with open(os.path.join(keepdir, j.name + ".log"), "w") as f:
                    f.write(t[-200000:])
            except OSError:
                pass
    return finish(pid, spec, asm, tier, seed, jobs, t0)


def finish(pid, spec, asm, tier, seed, jobs: List[Job], t0, fatal: Optional[str] = None) -> int:
    lines = []
    violations = 0
    inconclusive = []
    replay_dir = os.path.join(EVID, "replay")
    os.makedirs(replay_dir, exist_ok=True)
    samples = []
    discharged = 0
    evaluations = 0
    nontrivial = 0
    solver = {}
    for j in jobs:
        evaluations += j.checks_total + j.covers[1]
        if j.kind == "main":
            entry = {"obligation": j.ob.id, "bound": j.ob.bound, "status": j.status, "covers": "%d/%d" % j.covers,
                     "checks": j.checks_total, "wall_s": round(j.wall, 1)}
            if j.ob.unwind:
                entry["unwind"] = j.ob.unwind
            if j.reason:
                entry["reason"] = j.reason
            samples.append(entry)
            solver[j.ob.id] = j.stats
            if j.status == "SUCCESS":
                discharged += 1
                nontrivial += 1
            elif j.status == "VIOLATION":
                rp = j.replay or {}
                path = os.path.join(replay_dir, "%s_%s.json" % (pid, j.ob.id))
                with open(path, "w") as f:
                    json.dump({"property": pid, "obligation": j.ob.id, "harness_file": j.ob.harness_file,
                               "module_path": j.ob.module_path, "failed_checks": j.failed_checks, "replay": rp}, f, indent=1)
                if rp.get("reproduced"):
                    violations += 1
                    lines.append("VIOLATION property=%s replay=%s" % (pid, path))
                    lines.append("  obligation=%s check=%r input=%s" % (j.ob.id, rp.get("check"), "; ".join(rp.get("decoded", []))[:300]))
                else:
                    inconclusive.append("%s: solver counterexample did not reproduce natively (%s)" % (j.ob.id, rp.get("error") or ("native run passed" if rp.get("native_passed") else "native replay did not build or did not run the test")))
            else:
                inconclusive.append("%s: %s" % (j.ob.id, j.reason))
        else:
            kf = j.finding
            if j.status == "VIOLATION":
                lines.append("KNOWN-FINDING: property=%s %s [%s] %s" % (pid, kf["id"], j.ob.id, kf["what"]))
                samples.append({"known_finding": kf["id"], "obligation": j.ob.id, "still_fails": True, "failed_check": j.reason[:200]})
            elif j.status == "SUCCESS" and j.reason:
                samples.append({"known_finding": kf["id"], "obligation": j.ob.id, "applies_here": False})
            elif j.status == "SUCCESS":
                lines.append("note: listed finding %s no longer fails on this tree (nothing suppressed for it beyond its input)" % kf["id"])
                samples.append({"known_finding": kf["id"], "obligation": j.ob.id, "still_fails": False})
            else:
                inconclusive.append("%s(witness %s): %s" % (j.ob.id, kf["id"], j.reason))
    n_main = len([j for j in jobs if j.kind == "main"])
    ev = {
        "property_id": pid,
        "tier": tier,
        "seed": seed,
        "level": "model_checking",
        "coverage": {
            "evaluations": evaluations,
            "distinct_nontrivial": nontrivial,
            "rule": "one evaluation = one CBMC property (assertion, overflow/bounds/unwinding check or cover) decided by the SAT solver over the whole bounded input space of its obligation; an obligation is counted as non-trivial only if verification succeeded AND every kani::cover! witness in it was satisfied (reachability, non-vacuity)",
            "samples": samples if samples else [{"fatal": fatal}],
            "obligations": n_main,
            "discharged": discharged,
            "exhaustive": False,
            "checker_cmd": "cargo kani --harness <obligation> --exact (Kani 0.68.0, CBMC 6.11.0, CaDiCaL) on a scratch crate regenerated from /repo's working tree",
            "trusted_base": ["rustc/Kani MIR->GOTO translation", "CBMC 6.11 + CaDiCaL", "engine/slicer.py item extraction",
                             "shims: " + ", ".join(spec.get("shims", []) or ["none"])] + spec.get("trusted", []),
            "functions_encoded": asm.manifest,
            "use_rebinds": asm.rebinds,
            "auto_closure": asm.log,
            "bounds": {j.ob.id: j.ob.bound for j in jobs if j.kind == "main"},
            "stubs": spec.get("stubs_doc", []),
            "outside_claim": spec.get("outside_claim", []),
            "solver": solver,
            "inconclusive": inconclusive,
            "explanation": "bounded symbolic execution of the repository's own source text (sliced/re-rooted), decided per obligation by SAT; nothing is claimed outside the stated bounds",
        },
        "assumptions": spec.get("assumptions", []) + ["inputs outside each obligation's stated bound are not covered",
                                                      "std containers / third-party crates replaced by shims behave as documented"],
        "wall_s": round(time.time() - t0, 1),
        "violations": violations,
    }
    if fatal:
        ev["coverage"]["fatal"] = fatal
        # still must be schema-valid: evaluations>=1, distinct>=2 cannot be claimed -> leave measured zeros
    os.makedirs(EVID, exist_ok=True)
    with open(os.path.join(EVID, pid + ".json"), "w") as f:
        json.dump(ev, f, indent=1)
    for l in lines:
        print(l)
    if fatal:
        print("INCONCLUSIVE property=%s %s" % (pid, fatal))
        return 2
    if violations:
        return 1
    if inconclusive:
        for i in inconclusive:
            print("INCONCLUSIVE property=%s %s" % (pid, i))
        return 2
    print("OK property=%s tier=%s obligations=%d discharged=%d solver_checks=%d wall=%.0fs" % (pid, tier, n_main, discharged, evaluations, time.time() - t0))
    return 0


def replay_file(path: str) -> int:
    with open(path) as f:
        r = json.load(f)
    pid = r["property"]
    mod = importlib.import_module("props." + pid)
    workdir = os.path.join(WORK_ROOT, "%s-replay-%d" % (pid, os.getpid()))
    os.makedirs(workdir, exist_ok=True)
    try:
        asm = assemble.Assembly(mod.SPEC, workdir, load_known())
        asm.build()
        errs = assemble.close(asm)
        if errs:
            print("INCONCLUSIVE replay: crate does not compile")
            return 2
        ob = next(o for o in asm.obligations if o.id == r["obligation"])
        rp = r["replay"]
        res = native_playback(asm, ob, rp["test_fn"], rp["test_text"], workdir)
        if res["reproduced"]:
            print("VIOLATION property=%s replay=%s" % (pid, path))
            print("  " + res["panic"].replace("\n", " "))
            return 1
        print("replay passes on this tree (no violation): %s" % path)
        return 0
    finally:
        shutil.rmtree(workdir, ignore_errors=True)
