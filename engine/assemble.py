"""Builds one scratch Kani crate per property from /repo's *current* sources.

The scratch crate mirrors the library's module tree for the files it uses, so
`crate::parser::ParseError`, `super::objects::PdfObject` ... resolve exactly as
they do in the library.  Library text is copied verbatim (whole file minus
tests, or named items); the only transformation is rebinding of `use` lines
listed in the spec (recorded in the evidence).
"""
from __future__ import annotations

import json
import os
import re
import shutil
import subprocess
import sys
from typing import Dict, List, Optional, Tuple

from . import slicer

VERIF = os.path.dirname(os.path.dirname(os.path.abspath(__file__)))
REPO = os.environ.get("VERIF_REPO", "/repo")
SRC_ROOT = os.path.join(REPO, "oxidize-pdf-core", "src")

LIB_HEADER = """#![cfg_attr(kani, feature(allocator_api))]
#![allow(dead_code, unused_imports, unused_variables, unused_mut, unused_macros, unreachable_code, unused_assignments)]
#![allow(clippy::all)]
"""

CARGO_TOML = """[package]
name = "{name}"
version = "0.0.0"
edition = "2021"

[lib]
path = "src/lib.rs"

[dependencies]
{deps}

[workspace]

[lints.rust]
unexpected_cfgs = {{ level = "allow", check-cfg = ['cfg(kani)', 'cfg(verif_native)'] }}

[profile.dev]
debug = false
"""


class Obligation:
    def __init__(self, d: Dict[str, str], module_path: str, harness_file: str, body_generic: bool):
        self.id = d["id"]
        self.tier = d.get("tier", "quick")
        self.timeout = int(d.get("timeout", "300"))
        self.mem_gb = int(d.get("mem", "16"))
        self.unwind = d.get("unwind")
        self.unwindset = d.get("unwindset")
        self.bound = d.get("bound", "")
        self.known_sig = d.get("known")      # e.g. "b: u8"
        self.stubs = d.get("stubs", "")       # comma list of stub ids
        self.module_path = module_path        # e.g. text::encoding
        self.harness_file = harness_file
        self.generic = body_generic
        self.kfgroup = d.get("kfgroup", d["id"])
        self.raw = d

    def fq(self, crate: str, suffix: str = "") -> str:
        return "%s::verif_harness::%s%s" % (self.module_path, self.id, suffix)


AT_OB = re.compile(r"^\s*//\s*@ob\s+(.*)$")
KV = re.compile(r'(\w+)=("([^"]*)"|\S+)')


def parse_annotations(text: str) -> List[Tuple[Dict[str, str], int]]:
    out = []
    for m in re.finditer(r"^[ \t]*//[ \t]*@ob[ \t]+(.*)$", text, re.M):
        d = {}
        for k in KV.finditer(m.group(1)):
            v = k.group(3) if k.group(3) is not None else k.group(2)
            d[k.group(1)] = v
        out.append((d, m.end()))
    return out


def mod_path_of(rel: str) -> List[str]:
    parts = rel[:-3].split("/")
    if parts[-1] == "mod":
        parts = parts[:-1]
    return parts


class Assembly:
    def __init__(self, spec: dict, workdir: str, known: Optional[dict] = None):
        self.spec = spec
        self.pid = spec["id"]
        self.workdir = workdir
        self.crate_dir = os.path.join(workdir, "crate")
        self.crate_name = "vx_" + self.pid.lower()
        self.known = known or {}
        self.manifest: List[dict] = []     # functions encoded
        self.rebinds: List[dict] = []
        self.obligations: List[Obligation] = []
        self.extra_items: Dict[str, List[str]] = {}   # rel -> items added by auto-closure
        self.sources: Dict[str, slicer.SourceFile] = {}
        self.log: List[str] = []

    # ------------------------------------------------------------------
    def source(self, rel: str) -> slicer.SourceFile:
        if rel not in self.sources:
            self.sources[rel] = slicer.SourceFile(os.path.join(SRC_ROOT, rel), rel)
        return self.sources[rel]

    def build(self):
        if os.path.exists(self.crate_dir):
            shutil.rmtree(self.crate_dir)
        os.makedirs(os.path.join(self.crate_dir, "src"))
        self.write_all()

    def write_all(self):
        spec = self.spec
        self.manifest = []
        self.rebinds = []
        self.obligations = []
        src_dir = os.path.join(self.crate_dir, "src")
        tree: Dict[Tuple[str, ...], dict] = {(): {"children": set(), "text": ""}}

        def ensure(path: Tuple[str, ...]):
            if path not in tree:
                tree[path] = {"children": set(), "text": ""}
                ensure(path[:-1])
                tree[path[:-1]]["children"].add(path[-1])

        for m in spec["modules"]:
            rel = m["src"]
            sf = self.source(rel)
            mode = m.get("mode", "items")
            if mode == "whole":
                text = slicer.strip_inner_docs_and_tests(sf)
                import hashlib
                self.manifest.append({"file": rel, "item": "<whole file minus #[cfg(test)]>",
                                      "sha256_16": hashlib.sha256(text.encode()).hexdigest()[:16], "bytes": len(text)})
            else:
                items = list(m.get("items", [])) + self.extra_items.get(rel, [])
                body, man, missing = slicer.render(sf, items)
                if missing:
                    raise AssemblyError("items not found in %s: %s" % (rel, ", ".join(missing)))
                self.manifest.extend(man)
                uses = "" if m.get("no_uses") else self.render_uses(sf, m)
                text = uses + "\n" + body
            text = self.apply_rebinds(rel, text, m.get("rebind", []) + spec.get("rebind_all", []))
            if "tracing::" in text and "tracing" in spec.get("shims", []):
                text = "use crate::verif_shims::tracing;\n" + text
                self.rebinds.append({"file": rel, "from": "extern crate tracing (logging macros)", "to": "crate::verif_shims::tracing (no-op macros)", "count": text.count("tracing::")})
            text = m.get("prelude", "") + text + m.get("epilogue", "")
            if m.get("harness"):
                text += self.render_harness(m["harness"], "::".join(mod_path_of(rel)))
            path = tuple(mod_path_of(rel))
            ensure(path)
            tree[path]["text"] += text

        for rel, extra in spec.get("extra_modules", {}).items():
            path = tuple(mod_path_of(rel))
            ensure(path)
            tree[path]["text"] = extra + "\n" + tree[path]["text"]

        # emit files
        def emit(path: Tuple[str, ...]):
            node = tree[path]
            decl = "".join("pub mod %s;\n" % c for c in sorted(node["children"]))
            if path == ():
                return decl
            if node["children"]:
                d = os.path.join(src_dir, *path)
                os.makedirs(d, exist_ok=True)
                with open(os.path.join(d, "mod.rs"), "w") as f:
                    f.write(decl + node["text"])
            else:
                d = os.path.join(src_dir, *path[:-1])
                os.makedirs(d, exist_ok=True)
                with open(os.path.join(d, path[-1] + ".rs"), "w") as f:
                    f.write(node["text"])
            return ""

        for path in sorted(tree, key=len, reverse=True):
            if path != ():
                emit(path)
        lib = LIB_HEADER + spec.get("lib_prelude", "") + emit(())
        lib += "pub mod verif_shims;\npub mod verif_known;\npub mod spec;\n"
        lib += spec.get("lib_extra", "")
        with open(os.path.join(src_dir, "lib.rs"), "w") as f:
            f.write(lib)

        # shims
        shim_txt = ["// environment models (see DESIGN.md 3.2)\n"]
        for s in spec.get("shims", []):
            with open(os.path.join(VERIF, "engine", "shims", s + ".rs")) as f:
                body = f.read()
            for old, new in spec.get("shim_subst", {}).get(s, []):
                assert old in body, "shim_subst: %r not in shim %s" % (old, s)
                body = body.replace(old, new)
            shim_txt.append("// ---- shim: %s ----\n" % s + body + "\n")
        with open(os.path.join(src_dir, "verif_shims.rs"), "w") as f:
            f.write("".join(shim_txt))
        # spec tables
        os.makedirs(os.path.join(src_dir, "spec"), exist_ok=True)
        decl = []
        for s in spec.get("spec_files", []):
            shutil.copy(os.path.join(VERIF, "engine", "spec", s), os.path.join(src_dir, "spec", s))
            decl.append("pub mod %s;\n" % s[:-3])
        with open(os.path.join(src_dir, "spec", "mod.rs"), "w") as f:
            f.write("".join(decl))
        # known findings
        with open(os.path.join(src_dir, "verif_known.rs"), "w") as f:
            f.write(self.render_known())
        deps = "\n".join(spec.get("deps", []))
        with open(os.path.join(self.crate_dir, "Cargo.toml"), "w") as f:
            f.write(CARGO_TOML.format(name=self.crate_name, deps=deps))
        if spec.get("deps"):
            shutil.copy(os.path.join(REPO, "Cargo.lock"), os.path.join(self.crate_dir, "Cargo.lock"))
        os.makedirs(os.path.join(self.crate_dir, ".cargo"), exist_ok=True)
        with open(os.path.join(self.crate_dir, ".cargo", "config.toml"), "w") as f:
            f.write("[net]\noffline = true\n")

    # ------------------------------------------------------------------
    def render_uses(self, sf: slicer.SourceFile, m: dict) -> str:
        drop = m.get("drop_uses", [])
        out = []
        for u in sf.uses():
            t = u.text(sf.src)
            if "cfg(test)" in u.attrs.replace(" ", ""):
                continue
            if any(d in u.name for d in drop):
                continue
            out.append(t)
        return "\n".join(out) + "\n"

    def apply_rebinds(self, rel: str, text: str, rebinds: List[Tuple[str, str]]) -> str:
        for old, new in rebinds:
            if old in text:
                cnt = text.count(old)
                text = text.replace(old, new)
                self.rebinds.append({"file": rel, "from": old, "to": new, "count": cnt})
        return text

    def render_harness(self, harness_file: str, module_path: str) -> str:
        with open(os.path.join(VERIF, "harness", harness_file)) as f:
            h = f.read()
        anns = parse_annotations(h)
        wrappers = []
        for d, pos in anns:
            rest = h[pos:pos + 400]
            generic = bool(re.search(r"fn\s+%s\s*<\s*const\s+KF\s*:\s*usize\s*>" % re.escape(d["id"]), rest))
            ob = Obligation(d, module_path, harness_file, generic)
            self.obligations.append(ob)
            if generic:
                attrs = "#[kani::proof]\n"
                if ob.unwind:
                    attrs += "#[kani::unwind(%s)]\n" % ob.unwind
                for st in expand_stubs(ob.stubs):
                    if st.startswith("params:"):
                        # per-instance constant parameter dictionary (see harness const_params!)
                        mod = "crate::%s::verif_harness::%s" % (module_path, st.split(":", 1)[1])
                        attrs += "#[kani::stub(crate::verif_shims::pdfdict_model::PdfDictionary::get, %s::get)]\n" % mod
                        attrs += "#[kani::stub(crate::parser::objects::PdfObject::as_integer, %s::as_integer)]\n" % mod
                    else:
                        attrs += "#[kani::stub(%s)]\n" % STUBS[st]
                wrappers.append("%spub fn %s__main() { %s::<0>() }\n" % (attrs, ob.id, ob.id))
                for i, kf in enumerate(self.known_for(ob.kfgroup), start=1):
                    wrappers.append("%spub fn %s__kf%d() { %s::<%d>() }\n" % (attrs, ob.id, i, ob.id, i))
        return ("\n#[cfg(kani)]\npub mod verif_harness {\n#![allow(unused)]\nuse super::*;\n" + h + "\n// ---- generated wrappers ----\n" + "".join(wrappers) + "}\n")

    def known_for(self, ob_id: str) -> List[dict]:
        return [k for k in self.known.get("findings", []) if k.get("property") == self.pid and k.get("obligation") == ob_id and k.get("status", "open") == "open"]

    def render_known(self) -> str:
        out = ["// generated from known_findings.json: admission predicates for the main harness (KF = 0:\n"
               "// everything except the listed findings) and for each finding's witness harness (KF = i: only finding i).\n"
               "#![allow(unused)]\n"]
        seen = set()
        for ob in self.obligations:
            if not ob.known_sig or ob.kfgroup in seen:
                continue
            seen.add(ob.kfgroup)
            kfs = self.known_for(ob.kfgroup)
            args = ob.known_sig
            body = ["    match KF {\n"]
            if kfs:
                body.append("        0 => !(%s),\n" % " || ".join("(%s)" % k["pred"] for k in kfs))
            else:
                body.append("        0 => true,\n")
            for i, k in enumerate(kfs, start=1):
                body.append("        %d => (%s),\n" % (i, k["pred"]))
            body.append("        _ => false,\n    }\n")
            out.append("pub fn %s<const KF: usize>(%s) -> bool {\n%s}\n" % (ob.kfgroup, args, "".join(body)))
        return "".join(out)


STUBS = {
    "fmt_write": "core::fmt::write, crate::verif_shims::fmt_write_unreachable",
    "instant_now": "std::time::Instant::now, crate::verif_shims::instant_now_any",
    "instant_elapsed": "std::time::Instant::elapsed, crate::verif_shims::instant_elapsed_any",
    "vec_new": "alloc::vec::Vec::new, crate::verif_shims::vec_new_roomy",
    "vec_cap": "alloc::vec::Vec::with_capacity, crate::verif_shims::vec_with_capacity_roomy",
    "vec_push": "alloc::vec::Vec::push, crate::verif_shims::vec_push_nogrow",
    "vec_extend": "alloc::vec::Vec::extend_from_slice, crate::verif_shims::vec_extend_from_slice_nogrow",
    "str_repeat": "str::repeat, crate::verif_shims::str_repeat_small",
    "string_new": "alloc::string::String::new, crate::verif_shims::string_new_roomy",
    "push_str": "alloc::string::String::push_str, crate::verif_shims::push_str_nogrow",
    "fmt_upper_letters": "crate::page_labels::page_label::PageLabelStyle::format, crate::page_labels::page_label::verif_harness::format_only_upper_letters",
    "string_insert": "alloc::string::String::insert, crate::verif_shims::string_insert_ascii",
    "string_push": "alloc::string::String::push, crate::verif_shims::string_push_ascii",
    "to_uppercase": "str::to_uppercase, crate::verif_shims::str_to_uppercase_ascii",
    "fmt": "alloc::fmt::format, crate::verif_shims::fmt_stub",
}


STUB_GROUPS = {"instant": ["instant_now", "instant_elapsed"], "vec": ["vec_new", "vec_cap", "vec_push", "vec_extend"]}


def expand_stubs(spec: str):
    out = []
    for st in [x for x in spec.split(",") if x]:
        out.extend(STUB_GROUPS.get(st, [st]))
    return out


class AssemblyError(Exception):
    pass


# ----------------------------------------------------------------------
# auto-closure: compile natively, add items the compiler says are missing

MISSING_PATTERNS = [
    (re.compile(r"cannot find (?:function|value|type|struct, variant or union type|tuple struct or tuple variant|trait|macro|unit struct, unit variant or constant|function, tuple struct or tuple variant|struct|enum|constant|static|type alias) `([A-Za-z_][A-Za-z0-9_]*)`"), "name"),
    (re.compile(r"failed to resolve: use of undeclared type `([A-Za-z_][A-Za-z0-9_]*)`"), "name"),
    (re.compile(r"use of undeclared type `([A-Za-z_][A-Za-z0-9_]*)`"), "name"),
    (re.compile(r"no (?:method|function or associated item|associated item|variant or associated item) named `([A-Za-z_][A-Za-z0-9_]*)` found for (?:struct|enum|mutable reference|reference|type alias)? ?`&?(?:mut )?(?:[A-Za-z_0-9:]*::)?([A-Za-z_][A-Za-z0-9_]*)"), "method"),
    (re.compile(r"unresolved import `((?:self|super|crate)(?:::[A-Za-z_][A-Za-z0-9_]*)+)`"), "import"),
]


def cargo_env():
    env = dict(os.environ)
    env["CARGO_NET_OFFLINE"] = "true"
    env.pop("RUSTFLAGS", None)
    return env


def native_check(crate_dir: str, target_dir: str) -> List[dict]:
    p = subprocess.run(["cargo", "check", "--offline", "--message-format=json", "--target-dir", target_dir],
                       cwd=crate_dir, env=cargo_env(), capture_output=True, text=True)
    msgs = []
    for ln in p.stdout.splitlines():
        try:
            j = json.loads(ln)
        except Exception:
            continue
        if j.get("reason") == "compiler-message" and j["message"]["level"] == "error":
            msgs.append(j["message"])
    if p.returncode != 0 and not msgs:
        msgs.append({"message": "cargo check failed: " + p.stderr[-2000:], "spans": [], "code": None})
    return msgs


def close(asm: Assembly, max_rounds: int = 8) -> List[dict]:
    """Iterate cargo check; for each 'cannot find X' look X up in the file the error
    came from (mapped back to the library file) and add it.  Returns remaining errors."""
    target = os.path.join(asm.workdir, "target-native")
    mod_to_rel = {}
    for m in asm.spec["modules"]:
        p = mod_path_of(m["src"])
        mod_to_rel["/".join(p) + ".rs"] = m
        mod_to_rel["/".join(p) + "/mod.rs"] = m
    for rnd in range(max_rounds):
        errs = native_check(asm.crate_dir, target)
        if not errs:
            return []
        added = False
        for e in errs:
            msg = e.get("message", "")
            full = msg + " " + " ".join((c.get("message") or "") for c in e.get("children", []))
            file = None
            for sp in e.get("spans", []):
                if sp.get("is_primary"):
                    file = sp["file_name"]
            if not file or not file.startswith("src/"):
                continue
            m = mod_to_rel.get(file[4:])
            if m is None or m.get("mode") == "whole":
                continue
            rel = m["src"]
            sf = asm.source(rel)
            have = set(m.get("items", [])) | set(asm.extra_items.get(rel, []))
            for pat, kind in MISSING_PATTERNS:
                mm = pat.search(full)
                if not mm:
                    continue
                cands: List[str] = []
                if kind == "name":
                    cands = sf.find_name_anywhere(mm.group(1))
                    # a type brought in this way usually needs its impls too
                    for c in list(cands):
                        if c.split()[0] in ("struct", "enum"):
                            pass
                elif kind == "method":
                    cands = sf.find_method_anywhere(mm.group(1), mm.group(2)) or sf.find_method_anywhere(mm.group(1))
                for c in cands:
                    if c not in have:
                        asm.extra_items.setdefault(rel, []).append(c)
                        have.add(c)
                        asm.log.append("auto-closure: added `%s` from %s (%s)" % (c, rel, msg[:80]))
                        added = True
                break
        if not added:
            return errs
        asm.write_all()
    return native_check(asm.crate_dir, target)
