// alloc::fmt::format model for harnesses that never inspect message text (error paths).
pub fn fmt_stub(_args: core::fmt::Arguments<'_>) -> String {
    String::new()
}

/// `std::time::Instant::now` model: an arbitrary instant (the clock is environment).  Built by
/// transmuting (secs, nanos) into the platform's Timespec-backed Instant (x86_64-linux layout: i64 + u32).
#[cfg(kani)]
pub fn instant_now_any() -> std::time::Instant {
    let secs: i64 = kani::any();
    let nanos: u32 = kani::any();
    kani::assume(secs >= 0 && secs < (1i64 << 40) && nanos < 1_000_000_000);
    unsafe { core::mem::transmute::<(i64, u32), std::time::Instant>((secs, nanos)) }
}
/// `Instant::elapsed` model: an arbitrary non-negative duration.
#[cfg(kani)]
pub fn instant_elapsed_any(_i: &std::time::Instant) -> std::time::Duration {
    let secs: u64 = kani::any();
    kani::assume(secs < (1u64 << 40));
    std::time::Duration::from_secs(secs)
}

/// `core::fmt::write` for obligations whose inputs are ASSUMED not to reach any formatting: reaching
/// it is reported ("outside model"), never silently skipped.
pub fn fmt_write_unreachable(_out: &mut dyn core::fmt::Write, _args: core::fmt::Arguments<'_>) -> core::fmt::Result {
    assert!(false, "shim outside model: core::fmt::write reached although the obligation's inputs exclude formatting");
    Ok(())
}
