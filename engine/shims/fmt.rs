// alloc::fmt::format model for harnesses that never inspect message text (error paths).
pub fn fmt_stub(_args: core::fmt::Arguments<'_>) -> String {
    String::new()
}
