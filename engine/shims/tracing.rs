// no-op stand-in for the `tracing` macros (logging is environment; arguments are not evaluated)
pub mod tracing {
    macro_rules! verif_noop_log { ($($t:tt)*) => {{}}; }
    pub(crate) use verif_noop_log as debug;
    pub(crate) use verif_noop_log as warn;
    pub(crate) use verif_noop_log as info;
    pub(crate) use verif_noop_log as error;
    pub(crate) use verif_noop_log as trace;
}
