// Minimal stand-in for crate::objects::{Object, Dictionary, Array}: only so that library
// methods that *build* dictionaries (to_dict) type-check; no harness calls them.
pub mod objects_min {
    #[derive(Debug, Clone, PartialEq)]
    pub enum Object {
        Null,
        Boolean(bool),
        Integer(i64),
        Real(f64),
        String(String),
        Name(String),
        Array(Vec<Object>),
        Dictionary(Dictionary),
    }
    #[derive(Debug, Clone, PartialEq, Default)]
    pub struct Dictionary { entries: Vec<(String, Object)> }
    impl Dictionary {
        pub fn new() -> Self { Self { entries: Vec::new() } }
        pub fn set(&mut self, key: impl Into<String>, value: impl Into<Object>) { self.entries.push((key.into(), value.into())); }
        pub fn get(&self, key: &str) -> Option<&Object> { self.entries.iter().find(|(k, _)| k == key).map(|(_, v)| v) }
    }
    #[derive(Debug, Clone, PartialEq, Default)]
    pub struct Array { items: Vec<Object> }
    impl Array {
        pub fn new() -> Self { Self { items: Vec::new() } }
        pub fn push(&mut self, o: Object) { self.items.push(o) }
        pub fn iter(&self) -> std::slice::Iter<'_, Object> { self.items.iter() }
    }
    impl From<Array> for Vec<Object> { fn from(a: Array) -> Self { a.items } }
}
