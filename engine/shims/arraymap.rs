// Fixed-capacity array models of std HashMap / HashSet / VecDeque (environment, DESIGN.md 3.2).
// Contract kept: finite map / set / sequence semantics of the API subset below.  Exceeding the
// capacity is an `assert!` failure labelled "outside bound" (never an assume: it cannot silently
// prune paths).  Iteration order of the map is slot order unless a harness permutes it.
pub mod arraymap {
    pub const CAP: usize = 8;

    // slots are boxed so that recursive value types (PdfObject containing a PdfDictionary) have a size
    #[derive(Debug, Clone)]
    pub struct HashMap<K, V> {
        pub slots: Box<[Option<(K, V)>; CAP]>,
    }
    impl<K: Eq, V: PartialEq> PartialEq for HashMap<K, V> {
        fn eq(&self, other: &Self) -> bool {
            if self.len() != other.len() { return false; }
            let mut i = 0;
            while i < CAP {
                if let Some((k, v)) = &self.slots[i] {
                    match other.get(k) { Some(w) => { if v != w { return false; } } None => return false }
                }
                i += 1;
            }
            true
        }
    }
    impl<K: Eq, V> HashMap<K, V> {
        pub fn new() -> Self { Self { slots: Box::new([const { None }; CAP]) } }
        pub fn with_capacity(_n: usize) -> Self { Self::new() }
        fn find<Q: ?Sized + Eq>(&self, k: &Q) -> Option<usize> where K: core::borrow::Borrow<Q> {
            let mut i = 0;
            while i < CAP {
                if let Some((kk, _)) = &self.slots[i] { if kk.borrow() == k { return Some(i); } }
                i += 1;
            }
            None
        }
        pub fn len(&self) -> usize {
            let mut n = 0; let mut i = 0;
            while i < CAP { if self.slots[i].is_some() { n += 1; } i += 1; }
            n
        }
        pub fn is_empty(&self) -> bool { self.len() == 0 }
        pub fn contains_key<Q: ?Sized + Eq>(&self, k: &Q) -> bool where K: core::borrow::Borrow<Q> { self.find(k).is_some() }
        pub fn get<Q: ?Sized + Eq>(&self, k: &Q) -> Option<&V> where K: core::borrow::Borrow<Q> {
            match self.find(k) { Some(i) => self.slots[i].as_ref().map(|(_, v)| v), None => None }
        }
        pub fn get_mut<Q: ?Sized + Eq>(&mut self, k: &Q) -> Option<&mut V> where K: core::borrow::Borrow<Q> {
            match self.find(k) { Some(i) => self.slots[i].as_mut().map(|(_, v)| v), None => None }
        }
        pub fn insert(&mut self, k: K, v: V) -> Option<V> {
            if let Some(i) = self.find(&k) {
                let old = self.slots[i].take();
                self.slots[i] = Some((k, v));
                return old.map(|(_, v)| v);
            }
            let mut i = 0;
            while i < CAP {
                if self.slots[i].is_none() { self.slots[i] = Some((k, v)); return None; }
                i += 1;
            }
            panic!("outside bound: map shim capacity exceeded");
        }
        pub fn remove<Q: ?Sized + Eq>(&mut self, k: &Q) -> Option<V> where K: core::borrow::Borrow<Q> {
            match self.find(k) { Some(i) => self.slots[i].take().map(|(_, v)| v), None => None }
        }
        pub fn clear(&mut self) { let mut i = 0; while i < CAP { self.slots[i] = None; i += 1; } }
        pub fn iter(&self) -> MapIter<'_, K, V> { MapIter { m: self, i: 0 } }
        pub fn keys(&self) -> impl Iterator<Item = &K> + '_ { self.iter().map(|(k, _)| k) }
        pub fn values(&self) -> impl Iterator<Item = &V> + '_ { self.iter().map(|(_, v)| v) }
        pub fn entry(&mut self, k: K) -> Entry<'_, K, V> { Entry { m: self, k } }
    }
    impl<K: Eq, V> Default for HashMap<K, V> { fn default() -> Self { Self::new() } }
    pub struct Entry<'a, K, V> { m: &'a mut HashMap<K, V>, k: K }
    impl<'a, K: Eq, V> Entry<'a, K, V> {
        pub fn or_insert(self, v: V) -> &'a mut V {
            let idx = match self.m.find(&self.k) {
                Some(i) => i,
                None => {
                    let mut i = 0; let mut at = CAP;
                    while i < CAP { if self.m.slots[i].is_none() && at == CAP { at = i; } i += 1; }
                    assert!(at < CAP, "outside bound: map shim capacity exceeded");
                    self.m.slots[at] = Some((self.k, v));
                    at
                }
            };
            self.m.slots[idx].as_mut().map(|(_, v)| v).unwrap()
        }
        pub fn or_insert_with<F: FnOnce() -> V>(self, f: F) -> &'a mut V {
            if self.m.find(&self.k).is_some() { let i = self.m.find(&self.k).unwrap(); return self.m.slots[i].as_mut().map(|(_, v)| v).unwrap(); }
            self.or_insert(f())
        }
    }
    pub struct MapIter<'a, K, V> { m: &'a HashMap<K, V>, i: usize }
    impl<'a, K, V> Iterator for MapIter<'a, K, V> {
        type Item = (&'a K, &'a V);
        fn next(&mut self) -> Option<Self::Item> {
            while self.i < CAP {
                let j = self.i; self.i += 1;
                if let Some((k, v)) = &self.m.slots[j] { return Some((k, v)); }
            }
            None
        }
    }
    pub struct MapIntoIter<K, V> { slots: Box<[Option<(K, V)>; CAP]>, i: usize }
    impl<K, V> Iterator for MapIntoIter<K, V> {
        type Item = (K, V);
        fn next(&mut self) -> Option<(K, V)> {
            while self.i < CAP {
                let j = self.i; self.i += 1;
                if let Some(kv) = self.slots[j].take() { return Some(kv); }
            }
            None
        }
    }
    impl<K: Eq, V> IntoIterator for HashMap<K, V> {
        type Item = (K, V); type IntoIter = MapIntoIter<K, V>;
        fn into_iter(self) -> Self::IntoIter { MapIntoIter { slots: self.slots, i: 0 } }
    }
    impl<'a, K: Eq, V> IntoIterator for &'a HashMap<K, V> {
        type Item = (&'a K, &'a V); type IntoIter = MapIter<'a, K, V>;
        fn into_iter(self) -> Self::IntoIter { self.iter() }
    }

    #[derive(Debug, Clone)]
    pub struct HashSet<K> { m: HashMap<K, ()> }
    impl<K: Eq> HashSet<K> {
        pub fn new() -> Self { Self { m: HashMap::new() } }
        pub fn with_capacity(_n: usize) -> Self { Self::new() }
        pub fn insert(&mut self, k: K) -> bool { self.m.insert(k, ()).is_none() }
        pub fn contains(&self, k: &K) -> bool { self.m.contains_key(k) }
        pub fn remove(&mut self, k: &K) -> bool { self.m.remove(k).is_some() }
        pub fn len(&self) -> usize { self.m.len() }
        pub fn is_empty(&self) -> bool { self.m.is_empty() }
        pub fn clear(&mut self) { self.m.clear() }
        pub fn iter(&self) -> impl Iterator<Item = &K> + '_ { self.m.iter().map(|(k, _)| k) }
    }
    impl<K: Eq> Default for HashSet<K> { fn default() -> Self { Self::new() } }

    /// Sequence model of VecDeque: items[0] is the front.
    #[derive(Debug, Clone)]
    pub struct VecDeque<T> { pub items: [Option<T>; CAP], pub n: usize }
    impl<T> VecDeque<T> {
        pub fn new() -> Self { Self { items: [const { None }; CAP], n: 0 } }
        pub fn with_capacity(_n: usize) -> Self { Self::new() }
        pub fn len(&self) -> usize { self.n }
        pub fn is_empty(&self) -> bool { self.n == 0 }
        pub fn clear(&mut self) { let mut i = 0; while i < CAP { self.items[i] = None; i += 1; } self.n = 0; }
        pub fn push_back(&mut self, t: T) {
            assert!(self.n < CAP, "outside bound: deque shim capacity exceeded");
            self.items[self.n] = Some(t); self.n += 1;
        }
        pub fn push_front(&mut self, t: T) {
            assert!(self.n < CAP, "outside bound: deque shim capacity exceeded");
            let mut i = self.n;
            while i > 0 { self.items[i] = self.items[i - 1].take(); i -= 1; }
            self.items[0] = Some(t); self.n += 1;
        }
        pub fn pop_back(&mut self) -> Option<T> {
            if self.n == 0 { return None; }
            self.n -= 1; self.items[self.n].take()
        }
        pub fn pop_front(&mut self) -> Option<T> {
            if self.n == 0 { return None; }
            let r = self.items[0].take();
            let mut i = 1;
            while i < self.n { self.items[i - 1] = self.items[i].take(); i += 1; }
            self.n -= 1; r
        }
        pub fn front(&self) -> Option<&T> { if self.n == 0 { None } else { self.items[0].as_ref() } }
        pub fn back(&self) -> Option<&T> { if self.n == 0 { None } else { self.items[self.n - 1].as_ref() } }
        pub fn get(&self, i: usize) -> Option<&T> { if i < self.n { self.items[i].as_ref() } else { None } }
        pub fn remove(&mut self, idx: usize) -> Option<T> {
            if idx >= self.n { return None; }
            let r = self.items[idx].take();
            let mut i = idx + 1;
            while i < self.n { self.items[i - 1] = self.items[i].take(); i += 1; }
            self.n -= 1; r
        }
        pub fn swap_remove_back(&mut self, idx: usize) -> Option<T> {
            if idx >= self.n { return None; }
            let last = self.n - 1;
            self.items.swap(idx, last);
            self.n -= 1; self.items[last].take()
        }
        pub fn swap_remove_front(&mut self, idx: usize) -> Option<T> {
            if idx >= self.n { return None; }
            self.items.swap(idx, 0);
            self.pop_front()
        }
        pub fn insert(&mut self, idx: usize, t: T) {
            assert!(self.n < CAP, "outside bound: deque shim capacity exceeded");
            assert!(idx <= self.n, "index out of bounds");
            let mut i = self.n;
            while i > idx { self.items[i] = self.items[i - 1].take(); i -= 1; }
            self.items[idx] = Some(t); self.n += 1;
        }
        pub fn retain<F: FnMut(&T) -> bool>(&mut self, mut f: F) {
            let mut w = 0; let mut r = 0;
            while r < self.n {
                let keep = match &self.items[r] { Some(t) => f(t), None => false };
                if keep {
                    if w != r { self.items[w] = self.items[r].take(); }
                    w += 1;
                } else {
                    self.items[r] = None;
                }
                r += 1;
            }
            self.n = w;
        }
        pub fn truncate(&mut self, len: usize) { while self.n > len { self.n -= 1; self.items[self.n] = None; } }
        pub fn iter(&self) -> DequeIter<'_, T> { DequeIter { d: self, i: 0 } }
        pub fn contains(&self, t: &T) -> bool where T: PartialEq {
            let mut i = 0;
            while i < self.n { if let Some(x) = &self.items[i] { if x == t { return true; } } i += 1; }
            false
        }
    }
    impl<T> Default for VecDeque<T> { fn default() -> Self { Self::new() } }
    pub struct DequeIter<'a, T> { d: &'a VecDeque<T>, i: usize }
    impl<'a, T> Iterator for DequeIter<'a, T> {
        type Item = &'a T;
        fn next(&mut self) -> Option<&'a T> {
            if self.i >= self.d.n { return None; }
            let r = self.d.items[self.i].as_ref(); self.i += 1; r
        }
    }
    impl<'a, T> IntoIterator for &'a VecDeque<T> {
        type Item = &'a T; type IntoIter = DequeIter<'a, T>;
        fn into_iter(self) -> Self::IntoIter { self.iter() }
    }
}
