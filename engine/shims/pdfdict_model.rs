// Model of parser::objects::PdfDictionary for kernels that only CONSULT a parameter
// dictionary (`params.get("Columns")`): the real type is a one-line newtype over std HashMap
// (environment).  Keys are &'static str so that every lookup by a literal key is decided by
// constant propagation instead of a symbolic memcmp.  Capacity 6; `insert` past it asserts.
pub mod pdfdict_model {
    use crate::parser::objects::{PdfName, PdfObject};
    pub const DCAP: usize = 6;
    /// Keys are interned to small ids by a literal match, so that lookups by a literal key are
    /// decided by constant propagation (a memcmp over keys stored in a moved struct is not).
    /// A key outside this table cannot be stored (asserted) and is reported absent by `get`.
    pub fn key_id(s: &str) -> u8 {
        // no `==` on str (memcmp): the length and the bytes are compared one by one, which symex
        // folds to a constant for the literal keys the kernels pass
        let b = s.as_bytes();
        const KEYS: [&[u8]; 34] = [b"Columns", b"Colors", b"BitsPerComponent", b"Predictor", b"EarlyChange", b"Filter", b"DecodeParms", b"Length", b"Type", b"W", b"Index", b"Size", b"Prev", b"K", b"Rows", b"BlackIs1", b"EncodedByteAlign", b"DP", b"F", b"Root", b"Info", b"ID", b"Encrypt", b"XRefStm", b"N", b"First", b"Subtype", b"Width", b"Height", b"ColorSpace", b"EndOfLine", b"EndOfBlock", b"DamagedRowsBeforeError", b"ColorTransform"];
        let mut k = 0;
        while k < KEYS.len() {
            if KEYS[k].len() == b.len() {
                let mut same = true;
                let mut i = 0;
                while i < KEYS[k].len() {
                    if KEYS[k][i] != b[i] { same = false; }
                    i += 1;
                }
                if same { return (k + 1) as u8; }
            }
            k += 1;
        }
        0
    }
    #[derive(Debug, Clone, PartialEq)]
    pub struct PdfDictionary {
        k: [u8; DCAP],
        // integer values are kept INLINE (so that CBMC's constant propagation sees concrete
        // /Columns, /Colors ... and the kernels' loop bounds become concrete); `get` hands out a
        // freshly leaked PdfObject::Integer for them.  Other values live in the boxed array.
        is_int: [bool; DCAP],
        iv: [i64; DCAP],
        v: Box<[Option<PdfObject>; DCAP]>,
        n: usize,
    }
    impl Default for PdfDictionary { fn default() -> Self { Self::new() } }
    impl PdfDictionary {
        pub fn new() -> Self { Self { k: [0; DCAP], is_int: [false; DCAP], iv: [0; DCAP], v: Box::new([None, None, None, None, None, None]), n: 0 } }
        pub fn with(mut self, key: &'static str, value: PdfObject) -> Self { self.put(key, value); self }
        pub fn put(&mut self, key: &'static str, value: PdfObject) {
            let key = key_id(key);
            assert!(key != 0, "outside model: key not in the dictionary model's key table");
            let mut i = 0;
            while i < self.n {
                if self.k[i] == key {
                    if let PdfObject::Integer(x) = value { self.is_int[i] = true; self.iv[i] = x; self.v[i] = None; }
                    else { self.is_int[i] = false; self.v[i] = Some(value); }
                    return;
                }
                i += 1;
            }
            assert!(self.n < DCAP, "outside bound: dictionary model capacity exceeded");
            // the slot holds None: written without running PdfObject's (recursive) drop glue on it
            self.k[self.n] = key;
            if let PdfObject::Integer(x) = value {
                self.is_int[self.n] = true;
                self.iv[self.n] = x;
            } else {
                unsafe { core::ptr::write(&mut self.v[self.n], Some(value)); }
            }
            self.n += 1;
        }
        /// Harness helper: fill slot `slot` with an integer entry (or an unmatched placeholder when
        /// `present` is false) by plain inline writes -- cheap for the solver, concrete slot count.
        pub fn set_int_slot(&mut self, slot: usize, key: &'static str, present: bool, value: i64) {
            assert!(slot < DCAP);
            self.k[slot] = if present { key_id(key) } else { 0 };
            self.is_int[slot] = true;
            self.iv[slot] = value;
            if self.n <= slot { self.n = slot + 1; }
        }
        pub fn get(&self, key: &str) -> Option<&PdfObject> {
            let key = key_id(key);
            if key == 0 { return None; }
            let mut i = 0;
            while i < self.n {
                if self.k[i] == key {
                    if self.is_int[i] {
                        return Some(Box::leak(Box::new(PdfObject::Integer(self.iv[i]))));
                    }
                    return self.v[i].as_ref();
                }
                i += 1;
            }
            None
        }
        pub fn contains_key(&self, key: &str) -> bool { self.get(key).is_some() }
        pub fn get_type(&self) -> Option<&str> { self.get("Type").and_then(|o| o.as_name()).map(|n| n.0.as_str()) }
        pub fn len(&self) -> usize { self.n }
        pub fn is_empty(&self) -> bool { self.n == 0 }
    }
}
