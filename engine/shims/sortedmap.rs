// Fixed-capacity sorted map exported as `BTreeMap`: contract kept = a finite map whose
// iteration is in ascending key order (what code using std BTreeMap relies on).
// Exceeding the capacity is an assertion failure labelled "outside bound".
pub mod sortedmap {
    pub const CAP: usize = 4;
    #[derive(Debug, Clone)]
    pub struct BTreeMap<K, V> {
        slots: [Option<(K, V)>; CAP],
        len: usize,
    }
    impl<K: Ord + Copy, V> BTreeMap<K, V> {
        pub fn new() -> Self {
            Self { slots: [None, None, None, None], len: 0 }
        }
        pub fn len(&self) -> usize { self.len }
        pub fn is_empty(&self) -> bool { self.len == 0 }
        pub fn insert(&mut self, k: K, v: V) -> Option<V> {
            // replace
            let mut i = 0;
            while i < self.len {
                if let Some((kk, _)) = &self.slots[i] {
                    if *kk == k {
                        let old = self.slots[i].take();
                        self.slots[i] = Some((k, v));
                        return old.map(|(_, v)| v);
                    }
                }
                i += 1;
            }
            assert!(self.len < CAP, "outside bound: sorted-map shim capacity exceeded");
            // find position
            let mut pos = 0;
            while pos < self.len {
                if let Some((kk, _)) = &self.slots[pos] {
                    if *kk > k { break; }
                }
                pos += 1;
            }
            let mut j = self.len;
            while j > pos {
                self.slots[j] = self.slots[j - 1].take();
                j -= 1;
            }
            self.slots[pos] = Some((k, v));
            self.len += 1;
            None
        }
        pub fn get(&self, k: &K) -> Option<&V> {
            let mut i = 0;
            while i < self.len {
                if let Some((kk, v)) = &self.slots[i] {
                    if kk == k { return Some(v); }
                }
                i += 1;
            }
            None
        }
        pub fn iter(&self) -> Iter<'_, K, V> { Iter { m: self, i: 0 } }
    }
    pub struct Iter<'a, K, V> { m: &'a BTreeMap<K, V>, i: usize }
    impl<'a, K, V> Iterator for Iter<'a, K, V> {
        type Item = (&'a K, &'a V);
        fn next(&mut self) -> Option<Self::Item> {
            if self.i >= self.m.len { return None; }
            let r = self.m.slots[self.i].as_ref().map(|(k, v)| (k, v));
            self.i += 1;
            r
        }
    }
    impl<'a, K: Ord + Copy, V> IntoIterator for &'a BTreeMap<K, V> {
        type Item = (&'a K, &'a V);
        type IntoIter = Iter<'a, K, V>;
        fn into_iter(self) -> Self::IntoIter { self.iter() }
    }
}
