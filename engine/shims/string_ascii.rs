// Element-wise ASCII models of std String primitives whose real bodies are
// memmoves by a *symbolic* UTF-8 width (String::insert / String::push with a
// symbolic char).  Each model asserts its own applicability: a non-ASCII char
// reaching it is a reported failure ("outside model"), never a silent pass.
pub fn string_insert_ascii(s: &mut String, idx: usize, ch: char) {
    assert!(ch.is_ascii(), "shim outside model: String::insert with a non-ASCII char");
    unsafe { s.as_mut_vec().insert(idx, ch as u8) }
}
pub fn string_push_ascii(s: &mut String, ch: char) {
    assert!(ch.is_ascii(), "shim outside model: String::push with a non-ASCII char");
    unsafe { s.as_mut_vec().push(ch as u8) }
}
/// str::to_uppercase restricted to ASCII input (asserted).
pub fn str_to_uppercase_ascii(s: &str) -> String {
    let mut v: Vec<u8> = Vec::with_capacity(s.len());
    let b = s.as_bytes();
    let mut i = 0;
    while i < b.len() {
        assert!(b[i] < 0x80, "shim outside model: to_uppercase on non-ASCII text");
        v.push(b[i].to_ascii_uppercase());
        i += 1;
    }
    unsafe { String::from_utf8_unchecked(v) }
}
/// String::new with head-room: capacity is not semantically observable; with it, the
/// `push_str_nogrow` model below never needs the (symbolic-size) realloc path.
pub fn string_new_roomy() -> String {
    String::with_capacity(64)
}
/// String::push_str that requires (asserts) spare capacity and copies in place.
pub fn push_str_nogrow(s: &mut String, t: &str) {
    let v = unsafe { s.as_mut_vec() };
    assert!(v.capacity() - v.len() >= t.len(), "shim outside model: push_str beyond the 64-byte head-room");
    let tb = t.as_bytes();
    let base = v.len();
    unsafe {
        let mut i = 0;
        while i < tb.len() {
            *v.as_mut_ptr().add(base + i) = tb[i];
            i += 1;
        }
        v.set_len(base + tb.len());
    }
}
/// str::repeat for small counts (asserted): element-wise, no doubling memcpy of symbolic size.
pub fn str_repeat_small(s: &str, n: usize) -> String {
    assert!(n <= 8 && s.len() <= 4, "shim outside model: str::repeat beyond 8 x 4 bytes");
    let mut v: Vec<u8> = Vec::with_capacity(32);
    let b = s.as_bytes();
    let mut i = 0;
    while i < n {
        let mut j = 0;
        while j < b.len() {
            v.push(b[j]);
            j += 1;
        }
        i += 1;
    }
    unsafe { String::from_utf8_unchecked(v) }
}

// ---- Vec<T> without the growth path -------------------------------------------------------
// Every Vec::push / extend_from_slice carries a grow branch (reserve -> finish_grow -> realloc =
// memcpy of symbolic size) that CBMC must explore at each call site.  Capacity is not
// semantically observable, so `Vec::new` may start with head-room; the in-place models below
// then ASSERT the head-room suffices ("outside model" otherwise) instead of growing.
pub const VEC_ROOM: usize = 48;
pub fn vec_new_roomy<T>() -> Vec<T> {
    // built from raw parts so that this model never calls a Vec constructor that is itself stubbed
    let sz = core::mem::size_of::<T>();
    assert!(sz > 0, "shim outside model: Vec of a zero-sized type");
    unsafe {
        let layout = std::alloc::Layout::from_size_align_unchecked(sz * VEC_ROOM, core::mem::align_of::<T>());
        let p = std::alloc::alloc(layout) as *mut T;
        Vec::from_raw_parts(p, 0, VEC_ROOM)
    }
}
pub fn vec_with_capacity_roomy<T>(_n: usize) -> Vec<T> {
    vec_new_roomy::<T>()
}
#[cfg(kani)]
pub fn vec_push_nogrow<T, A: std::alloc::Allocator>(v: &mut Vec<T, A>, x: T) {
    assert!(v.len() < v.capacity(), "shim outside model: Vec::push beyond the head-room");
    unsafe {
        let n = v.len();
        core::ptr::write(v.as_mut_ptr().add(n), x);
        v.set_len(n + 1);
    }
}
#[cfg(kani)]
pub fn vec_extend_from_slice_nogrow<T: Clone, A: std::alloc::Allocator>(v: &mut Vec<T, A>, s: &[T]) {
    assert!(v.capacity() - v.len() >= s.len(), "shim outside model: Vec::extend_from_slice beyond the head-room");
    let mut i = 0;
    while i < s.len() {
        unsafe {
            let n = v.len();
            core::ptr::write(v.as_mut_ptr().add(n), s[i].clone());
            v.set_len(n + 1);
        }
        i += 1;
    }
}
