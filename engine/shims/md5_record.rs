// `md5` stand-in that RECORDS its argument instead of hashing it: MD5 itself is a third-party
// primitive (trusted), what the library owns is the assembly of the hash INPUT.  `compute`
// returns the first 16 input bytes (zero padded) so that callers that slice the digest still run.
pub mod md5 {
    pub static mut LAST: [u8; 64] = [0; 64];
    pub static mut LAST_LEN: usize = 0;
    pub struct Digest(pub [u8; 16]);
    impl core::ops::Deref for Digest { type Target = [u8; 16]; fn deref(&self) -> &[u8; 16] { &self.0 } }
    pub fn compute<T: AsRef<[u8]>>(data: T) -> Digest {
        let d = data.as_ref();
        assert!(d.len() <= 64, "outside bound: md5 recorder holds 64 bytes");
        let mut out = [0u8; 16];
        let mut i = 0;
        while i < d.len() {
            unsafe { LAST[i] = d[i]; }
            if i < 16 { out[i] = d[i]; }
            i += 1;
        }
        unsafe { LAST_LEN = d.len(); }
        Digest(out)
    }
}
