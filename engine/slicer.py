"""Rust source item extractor.

Tokenises Rust just enough to be safe against braces inside strings, raw
strings, byte strings, char literals (vs. lifetimes) and nested block comments,
then splits a file (or the body of an `impl`/`mod`/`trait`) into items.

Nothing in here rewrites code: an Item is a (start, end) span of the original
text, and extraction returns that text verbatim.
"""
from __future__ import annotations

import hashlib
import re
from dataclasses import dataclass, field
from typing import List, Optional, Tuple

IDENT_START = set("abcdefghijklmnopqrstuvwxyzABCDEFGHIJKLMNOPQRSTUVWXYZ_")
IDENT_CONT = IDENT_START | set("0123456789")


@dataclass
class Tok:
    kind: str  # 'id', 'punct', 'str', 'char', 'life', 'num', 'doc', 'attr_open'
    text: str
    start: int
    end: int


def tokenize(src: str, base: int = 0, stop: Optional[int] = None) -> List[Tok]:
    """Tokens of src[base:stop]; comments are dropped except doc comments
    (kept as kind 'doc' so that an item's span can include them)."""
    toks: List[Tok] = []
    i = base
    n = len(src) if stop is None else stop
    while i < n:
        c = src[i]
        if c in " \t\r\n":
            i += 1
            continue
        # comments
        if c == "/" and i + 1 < n and src[i + 1] == "/":
            j = src.find("\n", i)
            if j == -1 or j > n:
                j = n
            text = src[i:j]
            if text.startswith("///") and not text.startswith("////"):
                toks.append(Tok("doc", text, i, j))
            i = j
            continue
        if c == "/" and i + 1 < n and src[i + 1] == "*":
            depth = 1
            j = i + 2
            while j < n and depth:
                if src.startswith("/*", j):
                    depth += 1
                    j += 2
                elif src.startswith("*/", j):
                    depth -= 1
                    j += 2
                else:
                    j += 1
            text = src[i:j]
            if text.startswith("/**") and not text.startswith("/***") and text != "/**/":
                toks.append(Tok("doc", text, i, j))
            i = j
            continue
        # raw strings / byte strings / raw identifiers
        m = None
        if c in "rbc":
            m = re.compile(r'(?:br|cr|r)(#*)"').match(src, i)
            if m:
                hashes = m.group(1)
                close = '"' + hashes
                j = src.find(close, m.end())
                if j == -1:
                    raise ValueError("unterminated raw string at %d" % i)
                j += len(close)
                toks.append(Tok("str", src[i:j], i, j))
                i = j
                continue
            if (c in "bc") and i + 1 < n and src[i + 1] == '"':
                j = _scan_string(src, i + 1, n)
                toks.append(Tok("str", src[i:j], i, j))
                i = j
                continue
            if c == "b" and i + 1 < n and src[i + 1] == "'":
                j = _scan_char(src, i + 1, n)
                toks.append(Tok("char", src[i:j], i, j))
                i = j
                continue
            if c == "r" and src.startswith("r#", i) and i + 2 < n and src[i + 2] in IDENT_START:
                j = i + 2
                while j < n and src[j] in IDENT_CONT:
                    j += 1
                toks.append(Tok("id", src[i:j], i, j))
                i = j
                continue
        if c == '"':
            j = _scan_string(src, i, n)
            toks.append(Tok("str", src[i:j], i, j))
            i = j
            continue
        if c == "'":
            # char literal or lifetime
            if i + 1 < n and src[i + 1] == "\\":
                j = _scan_char(src, i, n)
                toks.append(Tok("char", src[i:j], i, j))
                i = j
                continue
            # 'x' (any single char, possibly multibyte) followed by '
            if i + 2 < n and src[i + 2] == "'" and src[i + 1] != "'":
                toks.append(Tok("char", src[i : i + 3], i, i + 3))
                i += 3
                continue
            # lifetime / label
            j = i + 1
            while j < n and src[j] in IDENT_CONT:
                j += 1
            toks.append(Tok("life", src[i:j], i, j))
            i = j
            continue
        if c in IDENT_START:
            j = i + 1
            while j < n and src[j] in IDENT_CONT:
                j += 1
            toks.append(Tok("id", src[i:j], i, j))
            i = j
            continue
        if c.isdigit():
            j = i + 1
            while j < n and (src[j] in IDENT_CONT or (src[j] == "." and j + 1 < n and src[j + 1].isdigit())):
                j += 1
            toks.append(Tok("num", src[i:j], i, j))
            i = j
            continue
        toks.append(Tok("punct", c, i, i + 1))
        i += 1
    return toks


def _scan_string(src: str, i: int, n: int) -> int:
    assert src[i] == '"'
    j = i + 1
    while j < n:
        if src[j] == "\\":
            j += 2
            continue
        if src[j] == '"':
            return j + 1
        j += 1
    raise ValueError("unterminated string at %d" % i)


def _scan_char(src: str, i: int, n: int) -> int:
    assert src[i] == "'"
    j = i + 1
    while j < n:
        if src[j] == "\\":
            j += 2
            continue
        if src[j] == "'":
            return j + 1
        j += 1
    raise ValueError("unterminated char at %d" % i)


OPEN = {"(": ")", "[": "]", "{": "}"}
CLOSE = {")", "]", "}"}

ITEM_KW = {"fn", "struct", "enum", "union", "trait", "impl", "mod", "use", "const", "static", "type", "macro_rules", "extern"}
QUALIFIERS = {"pub", "const", "async", "unsafe", "extern", "default"}


@dataclass
class Item:
    kind: str           # fn struct enum union trait impl mod use const static type macro extern_crate other
    name: str           # identifier; for impl: normalised header, e.g. "LruCache" or "Default for LruCache"
    start: int          # span start incl. attributes and doc comments
    end: int            # span end (exclusive)
    body: Optional[Tuple[int, int]] = None   # (index after '{', index of matching '}') for braced items
    header_end: int = 0  # position of '{' or ';'
    attrs: str = ""      # text of the attributes preceding the item
    children: List["Item"] = field(default_factory=list)

    def text(self, src: str) -> str:
        return src[self.start:self.end]

    def header(self, src: str) -> str:
        return src[self.start:self.header_end]

    def sha(self, src: str) -> str:
        return hashlib.sha256(self.text(src).encode()).hexdigest()[:16]


def _match_close(toks: List[Tok], k: int) -> int:
    """toks[k] is an opening bracket; return index of the matching closer."""
    depth = 0
    i = k
    while i < len(toks):
        t = toks[i]
        if t.kind == "punct":
            if t.text in OPEN:
                depth += 1
            elif t.text in CLOSE:
                depth -= 1
                if depth == 0:
                    return i
        i += 1
    raise ValueError("unbalanced bracket at offset %d" % toks[k].start)


def parse_items(src: str, lo: int = 0, hi: Optional[int] = None, recurse: bool = True) -> List[Item]:
    toks = tokenize(src, lo, hi)
    items: List[Item] = []
    i = 0
    n = len(toks)
    while i < n:
        start_tok = i
        span_start = toks[i].start
        # leading docs and attributes
        attrs_txt = []
        while i < n:
            t = toks[i]
            if t.kind == "doc":
                i += 1
                continue
            if t.kind == "punct" and t.text == "#":
                j = i + 1
                if j < n and toks[j].kind == "punct" and toks[j].text == "!":
                    j += 1
                if j < n and toks[j].kind == "punct" and toks[j].text == "[":
                    k = _match_close(toks, j)
                    attrs_txt.append(src[t.start:toks[k].end])
                    i = k + 1
                    continue
            break
        if i >= n:
            break
        # inner attribute only (e.g. #![allow]) forms its own pseudo item
        # visibility + qualifiers
        j = i
        kind = None
        while j < n:
            t = toks[j]
            if t.kind == "id" and t.text == "pub":
                j += 1
                if j < n and toks[j].kind == "punct" and toks[j].text == "(":
                    j = _match_close(toks, j) + 1
                continue
            if t.kind == "id" and t.text in ("async", "unsafe", "default"):
                j += 1
                continue
            if t.kind == "id" and t.text == "const":
                nxt = toks[j + 1] if j + 1 < n else None
                if nxt is not None and nxt.kind == "id" and nxt.text in ("fn", "unsafe", "async", "extern"):
                    j += 1
                    continue
                break
            if t.kind == "id" and t.text == "extern":
                nxt = toks[j + 1] if j + 1 < n else None
                if nxt is not None and nxt.kind == "id" and nxt.text == "crate":
                    break
                j += 1
                if j < n and toks[j].kind == "str":
                    j += 1
                # extern "C" { ... } block
                if j < n and toks[j].kind == "punct" and toks[j].text == "{":
                    kind = "extern_block"
                    break
                continue
            break
        if j >= n:
            # trailing junk (e.g. stray attributes); stop
            break
        t = toks[j]
        name = ""
        if kind == "extern_block":
            k = _match_close(toks, j)
            items.append(Item("extern_block", "", span_start, toks[k].end, (toks[j].end, toks[k].start), toks[j].start, "\n".join(attrs_txt)))
            i = k + 1
            continue
        if t.kind == "id" and t.text in ITEM_KW:
            kw = t.text
        elif t.kind == "id" and j + 1 < n and toks[j + 1].kind == "punct" and toks[j + 1].text == "!":
            kw = "macro_call"
        else:
            raise ValueError("cannot classify item at offset %d: %r" % (t.start, src[t.start:t.start + 60]))

        # find end of item
        def scan_end(from_idx: int, brace_ends: bool) -> Tuple[int, Optional[int], int]:
            """Return (end_tok_index, open_brace_tok_index or None, header_end_pos)."""
            k = from_idx
            while k < n:
                tk = toks[k]
                if tk.kind == "punct":
                    if tk.text == ";":
                        return k, None, tk.start
                    if tk.text == "{" and brace_ends:
                        c = _match_close(toks, k)
                        return c, k, tk.start
                    if tk.text in OPEN:
                        k = _match_close(toks, k) + 1
                        continue
                k += 1
            raise ValueError("unterminated item at offset %d" % toks[from_idx].start)

        if kw == "macro_rules" or kw == "macro_call":
            # name! { ... }  or name!( ... );  or macro_rules! name { ... }
            k = j + 2
            if kw == "macro_rules":
                name = toks[k].text
                k += 1
            else:
                name = t.text
            c = _match_close(toks, k)
            endk = c
            if toks[k].text != "{" and c + 1 < n and toks[c + 1].kind == "punct" and toks[c + 1].text == ";":
                endk = c + 1
            items.append(Item("macro" if kw == "macro_rules" else "macro_call", name, span_start, toks[endk].end, None, toks[k].start, "\n".join(attrs_txt)))
            i = endk + 1
            continue
        if kw in ("use", "const", "static", "type", "extern"):
            endk, _, hend = scan_end(j + 1, brace_ends=False)
            if kw == "use":
                name = re.sub(r"\s+", "", src[toks[j + 1].start:toks[endk].start])
            elif kw == "extern":
                kw = "extern_crate"
                name = toks[j + 2].text
            else:
                nt = toks[j + 1]
                if nt.kind == "id" and nt.text == "mut":
                    nt = toks[j + 2]
                name = nt.text
            items.append(Item(kw, name, span_start, toks[endk].end, None, hend, "\n".join(attrs_txt)))
            i = endk + 1
            continue
        # braced kinds: fn struct enum union trait impl mod
        endk, openk, hend = scan_end(j + 1, brace_ends=True)
        body = None
        if openk is not None:
            body = (toks[openk].end, toks[endk].start)
        if kw == "impl":
            hdr = src[toks[j].end:hend]
            name = normalise_impl_header(hdr)
        else:
            name = toks[j + 1].text
        it = Item(kw, name, span_start, toks[endk].end, body, hend, "\n".join(attrs_txt))
        if recurse and body is not None and kw in ("impl", "mod", "trait"):
            it.children = parse_items(src, body[0], body[1], recurse=(kw == "mod"))
        items.append(it)
        i = endk + 1
    return items


def _strip_generics(s: str) -> str:
    out = []
    depth = 0
    i = 0
    while i < len(s):
        c = s[i]
        if c == "<":
            depth += 1
        elif c == ">" and i > 0 and s[i - 1] != "-":
            depth -= 1
        elif depth == 0:
            out.append(c)
        i += 1
    return "".join(out)


def normalise_impl_header(hdr: str) -> str:
    """' <T: X> Trait<T> for Foo<T> where ...' -> 'Trait for Foo'."""
    h = re.sub(r"//[^\n]*", "", hdr)
    h = re.sub(r"\s+", " ", h).strip()
    h = re.split(r"\bwhere\b", h)[0]
    h = _strip_generics(h)
    h = re.sub(r"\s+", " ", h).strip()
    parts = h.split(" for ")
    def base(p: str) -> str:
        p = p.strip().lstrip("&").strip()
        p = p.replace("dyn ", "").replace("mut ", "")
        return p.split("::")[-1].strip()
    if len(parts) == 2:
        return "%s for %s" % (base(parts[0]), base(parts[1]))
    return base(parts[0])


class SourceFile:
    def __init__(self, path: str, rel: str):
        self.path = path
        self.rel = rel
        with open(path, encoding="utf-8") as f:
            self.src = f.read()
        self.items = parse_items(self.src)

    # ---- lookup -------------------------------------------------------
    def find(self, spec: str) -> List[Item]:
        """spec forms:
             'fn name' 'struct Name' 'enum Name' 'const NAME' 'static NAME' 'type Name'
             'trait Name' 'macro name' 'mod name'
             'impl Type'                      every inherent impl block of Type (whole)
             'impl Trait for Type'            that impl block (whole)
             'impl Type::method'              single method, re-wrapped in its impl header
             'impl Trait for Type::method'
        """
        kind, _, rest = spec.partition(" ")
        rest = rest.strip()
        if kind != "impl":
            return [it for it in self.items if it.kind == kind and it.name == rest]
        if "::" in rest:
            hdr, _, meth = rest.rpartition("::")
            out = []
            for it in self.items:
                if it.kind == "impl" and it.name == hdr:
                    for ch in it.children:
                        if ch.name == meth and ch.kind in ("fn", "const", "type"):
                            out.append((it, ch))
            return out
        return [it for it in self.items if it.kind == "impl" and it.name == rest]

    def find_name_anywhere(self, name: str):
        """Everything in this file that defines `name` (for auto-closure).
        Returns list of spec strings."""
        out = []
        for it in self.items:
            if it.kind in ("fn", "struct", "enum", "union", "const", "static", "type", "trait", "macro") and it.name == name:
                out.append("%s %s" % (it.kind, it.name))
        return out

    def find_method_anywhere(self, name: str, type_hint: Optional[str] = None):
        out = []
        for it in self.items:
            if it.kind == "impl":
                if type_hint and not (it.name == type_hint or it.name.endswith(" for " + type_hint)):
                    continue
                for ch in it.children:
                    if ch.kind in ("fn", "const") and ch.name == name:
                        out.append("impl %s::%s" % (it.name, ch.name))
        return out

    def impls_of(self, type_name: str):
        return ["impl %s" % it.name for it in self.items if it.kind == "impl" and (it.name == type_name or it.name.endswith(" for " + type_name))]

    def uses(self) -> List[Item]:
        return [it for it in self.items if it.kind == "use"]


def render(sf: SourceFile, specs: List[str]):
    """Return (text, manifest) where text is the verbatim concatenation, in
    source order, of the requested items; single methods of one impl header are
    grouped in one re-emitted `impl ... {` wrapper whose header text is the
    original header text."""
    chosen = []  # (start, kind, payload)
    whole_impl_spans = set()
    manifest = []
    missing = []
    for spec in specs:
        found = sf.find(spec)
        if not found:
            missing.append(spec)
            continue
        for f in found:
            if isinstance(f, tuple):
                imp, ch = f
                chosen.append((imp.start, ch.start, "method", imp, ch, spec))
            else:
                chosen.append((f.start, f.start, "item", f, None, spec))
                if f.kind == "impl":
                    whole_impl_spans.add((f.start, f.end))
    chosen.sort(key=lambda x: (x[0], x[1]))
    out = []
    seen = set()
    i = 0
    while i < len(chosen):
        c = chosen[i]
        if c[2] == "item":
            it = c[3]
            key = (it.start, it.end)
            if key not in seen:
                seen.add(key)
                out.append(it.text(sf.src))
                manifest.append({"file": sf.rel, "item": c[5], "sha256_16": it.sha(sf.src), "bytes": it.end - it.start})
            i += 1
            continue
        imp = c[3]
        if (imp.start, imp.end) in whole_impl_spans:
            i += 1
            continue
        # group consecutive methods of the same impl
        group = []
        while i < len(chosen) and chosen[i][2] == "method" and chosen[i][3] is imp:
            ch = chosen[i][4]
            key = (ch.start, ch.end)
            if key not in seen:
                seen.add(key)
                group.append((ch, chosen[i][5]))
            i += 1
        if group:
            hdr = sf.src[imp.start:imp.body[0]]
            parts = [hdr]
            for ch, spec in group:
                parts.append("\n    " + ch.text(sf.src) + "\n")
                manifest.append({"file": sf.rel, "item": spec, "sha256_16": ch.sha(sf.src), "bytes": ch.end - ch.start})
            parts.append("}\n")
            out.append("".join(parts))
    return "\n\n".join(out) + "\n", manifest, missing


def strip_inner_docs_and_tests(sf: SourceFile) -> str:
    """Whole-file re-rooting: the file verbatim minus `//!` header lines, inner
    attributes and `#[cfg(test)]` items."""
    src = sf.src
    drop = []
    for it in sf.items:
        if "cfg(test)" in it.attrs.replace(" ", ""):
            drop.append((it.start, it.end))
    out = []
    pos = 0
    for a, b in sorted(drop):
        out.append(src[pos:a])
        pos = b
    out.append(src[pos:])
    text = "".join(out)
    lines = []
    for ln in text.split("\n"):
        s = ln.lstrip()
        if s.startswith("//!") or s.startswith("#!["):
            continue
        lines.append(ln)
    return "\n".join(lines)


if __name__ == "__main__":
    import sys
    sf = SourceFile(sys.argv[1], sys.argv[1])
    for it in sf.items:
        print(it.kind, it.name, it.start, it.end)
        for ch in it.children:
            print("    ", ch.kind, ch.name)
